#!/usr/bin/env python3
"""Generates /verif/MANIFEST.json from tools/claims.json (claimed checks) and tools/na.json (not applicable)."""
import json, os
V = '/verif'
claims = json.load(open(f'{V}/tools/claims.json'))
na = json.load(open(f'{V}/tools/na.json'))
hooks_commits = [l.strip() for l in open(f'{V}/tools/hook_commits.txt') if l.strip()] if os.path.exists(f'{V}/tools/hook_commits.txt') else []
checks = []
for pid in sorted(claims):
    c = claims[pid]
    checks.append({
        "property_id": pid,
        "quick_cmd": f"./check {pid} --tier quick",
        "thorough_cmd": f"./check {pid} --tier thorough",
        "evidence_file": f"/verif/evidence/{pid}.json",
        "replay_cmd_template": "./bin/govc replay {path}",
        "engine": "govc",
        "level_claimed": {"category": "proof", "text": c["text"], "design_ref": c.get("design_ref", "DESIGN.md section 4")},
        "level_note": c["note"],
        "technique": c.get("technique", "contract-based deductive verification: weakest-precondition VCs generated from go/ssa of the real functions, contracts in guarded comment files in /repo, discharged by z3/cvc5"),
    })
ids = set(claims)
nas = [{"property_id": k, "reason": v} for k, v in sorted(na.items()) if k not in ids]
m = {
    "version": 1,
    "setup_cmd": "./build.sh",
    "hooks": {
        "guard": "verif",
        "enable": "go build tag 'verif' (-tags verif): enables the comment-only contract files internal/*/zz_verif_contracts.go; govc loads /repo with that tag",
        "baseline_off_cmd": "cd /repo && go test -mod=mod -vet=off -count=1 -timeout 25m ./...",
        "source_commits": hooks_commits,
        "add_only": True,
    },
    "engines": [{"name": "govc", "path": "/verif/govc", "serves_properties": sorted(claims),
                 "kind_free_text": "self-written VC generator for Go: go/packages + go/ssa (naive form) of the real functions -> passive form -> one named SMT-LIB query per obligation, raced on z3 5.1 / z3 4.8 / cvc5; contracts are //@ comments in /repo/internal/*/zz_verif_contracts.go (build tag verif), assumed contracts on dependencies in /verif/stubs, spec functions in /verif/specs"}],
    "checks": checks,
    "notes": "All checks are contract-based deductive verification of the real code (see DESIGN.md). A property's uncovered sub-claims are listed in its evidence file under coverage.sub_claims_not_covered and in DESIGN.md.",
    "not_applicable": nas,
}
json.dump(m, open(f'{V}/MANIFEST.json', 'w'), indent=1)
print(len(checks), "checks,", len(nas), "not applicable")
