#!/bin/sh
# usage: mkwt.sh <name>  -> creates /tmp/wt-<name>, a scratch worktree of /repo HEAD without the verif contract files
set -e
d=/tmp/wt-$1
git -C /repo worktree remove --force $d 2>/dev/null || true
rm -rf $d
git -C /repo worktree add -q --detach $d HEAD
cd $d
git rm -q $(git ls-files | grep zz_verif_contracts.go)
git -c user.name=scratch -c user.email=scratch@example.com commit -qm "scratch base (contract files removed)"
echo $d
