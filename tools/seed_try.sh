#!/bin/sh
# usage: seed_try.sh <patch.diff> <PROP> [extra check flags]  -> applies the patch to /repo, runs the check (no evidence), reverts the patch
p=$(readlink -f "$1"); id=$2; shift 2
git -C /repo apply "$p" || exit 2
cd /verif && ./check "$id" --tier quick -no-evidence "$@" 2>&1 | grep -E "VIOLATION|ERROR|^property" | cut -c1-400
git -C /repo apply -R "$p"
