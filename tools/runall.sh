#!/bin/bash
# Runs every claimed check (quick tier by default) on /repo's working tree and prints one line per property.
cd /verif || exit 2
tier=${1:-quick}
ids=$(python3 -c "import json; print(' '.join(json.load(open('/verif/props.json')).keys()))")
rc=0
for id in $ids; do
  out=$(./check "$id" --tier "$tier" 2>&1); e=$?
  echo "$id exit=$e $(echo "$out" | grep '^property' | head -1)"
  if [ $e -ne 0 ]; then rc=1; echo "$out" | grep -E "VIOLATION|ERROR|error" | head -10; fi
done
exit $rc
