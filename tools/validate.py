#!/opt/veriftools/pyvenv/bin/python
import json, jsonschema, sys, glob
jsonschema.validate(json.load(open('/verif/MANIFEST.json')), json.load(open('/root/.vp/MANIFEST.schema.json')))
print('manifest ok')
s = json.load(open('/root/.vp/EVIDENCE.schema.json'))
for f in sorted(glob.glob('/verif/evidence/*.json')):
    e = json.load(open(f))
    jsonschema.validate(e, s)
    c = e['coverage']
    print(f.split('/')[-1], 'ok', c.get('obligations'), c.get('discharged'), 'wall', e['wall_s'])
