#!/bin/sh
# usage: seed_confirm_core.sh <wt-name>  (demo in internal/core; creates the placeholder go:embed files for the run and removes them)
wt=/tmp/wt-$1
export PATH=/opt/veriftools/go1.26.8/bin:$PATH GOTOOLCHAIN=local GOFLAGS=-mod=mod GOPROXY=off GOSUMDB=off
cd $wt || exit 2
git checkout -q -- .
echo "v0.0.0" > internal/core/VERSION; echo "// placeholder" > internal/servers/hls/hls.min.js
git apply seed_out/patch.diff || exit 2
echo "--- [$1] existing core tests with the change:"
go test -vet=off -count=1 -timeout 900s ./internal/core/ 2>&1 | tail -2
cp seed_out/zz_seed_demo_test.go internal/core/
echo "--- [$1] demo with the change (must FAIL):"
go test -vet=off -count=1 -timeout 300s -run TestSeedDemo ./internal/core/ 2>&1 | grep -E "Messages|^FAIL|^ok|^---" | head -6
git apply -R seed_out/patch.diff
echo "--- [$1] demo without the change (must PASS):"
go test -vet=off -count=1 -timeout 300s -run TestSeedDemo ./internal/core/ 2>&1 | tail -2
rm -f internal/core/zz_seed_demo_test.go internal/core/VERSION internal/servers/hls/hls.min.js internal/core/auto.crt internal/core/auto.key
git status --short | head -3
