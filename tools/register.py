#!/usr/bin/env python3
"""usage: register.py <ID> <json-file>  with {"claim":..., "not_covered":[...], "text":..., "note":..., "design_ref":..., ["packages":[...], "engines":[...]]}
Adds/updates the property in props.json and tools/claims.json, then regenerates MANIFEST.json."""
import json, sys, subprocess
pid, f = sys.argv[1], sys.argv[2]
d = json.load(open(f))
props = json.load(open('/verif/props.json'))
e = {"claim": d["claim"], "not_covered": d["not_covered"]}
for k in ("packages", "engines", "bounded", "storesites", "closerpairs"):
    if k in d: e[k] = d[k]
props[pid] = e
json.dump(props, open('/verif/props.json', 'w'), indent=1)
claims = json.load(open('/verif/tools/claims.json'))
claims[pid] = {"text": d["text"], "note": d["note"], "design_ref": d.get("design_ref", "DESIGN.md section 4, " + pid)}
json.dump(claims, open('/verif/tools/claims.json', 'w'), indent=1)
subprocess.check_call(['python3', '/verif/tools/gen_manifest.py'])
subprocess.check_call(['/verif/tools/validate.py'])
