#!/bin/sh
# usage: seed_confirm.sh <wt-name> <pkg dir relative to repo> <demo test file name in seed_out> [test-run-regex]
# Confirms in the scratch worktree: demo fails with the change, passes without; existing package tests pass with the change.
wt=/tmp/wt-$1; pkg=$2; demo=$3; run=${4:-.}
export PATH=/opt/veriftools/go1.26.8/bin:$PATH GOTOOLCHAIN=local GOFLAGS=-mod=mod GOPROXY=off GOSUMDB=off
cd $wt || exit 2
git checkout -q -- . ; git apply seed_out/patch.diff || exit 2
cp seed_out/$demo $pkg/zz_seed_demo_test.go
echo "--- existing tests with the change (demo excluded):"
mv $pkg/zz_seed_demo_test.go /tmp/zz_seed_demo_test.go.$$; go test -vet=off -count=1 -timeout 600s ./$pkg/ 2>&1 | tail -2; mv /tmp/zz_seed_demo_test.go.$$ $pkg/zz_seed_demo_test.go
echo "--- demo with the change (must FAIL):"
go test -vet=off -count=1 -timeout 300s -run "$run" ./$pkg/ 2>&1 | tail -4
git checkout -q -- . 
echo "--- demo without the change (must PASS):"
go test -vet=off -count=1 -timeout 300s -run "$run" ./$pkg/ 2>&1 | tail -2
rm -f $pkg/zz_seed_demo_test.go
