import json,sys
pid, wt = sys.argv[1], sys.argv[2]
for l in open('/verif/properties.jsonl'):
    p = json.loads(l)
    if p['id']==pid: break
print(f"""You are testing how robust a semantic property of the Go media server bluenviron/mediamtx is against realistic regressions. You have your own scratch git worktree of the repository at {wt} (work ONLY inside that directory; never touch /repo or /verif, do not read anything under /verif).

The property ({p['id']}: {p['title']}):
\"\"\"{p['statement']}\"\"\"
Quantifier: {p['quantifier']['text']}
Anchors (where the mechanism lives): files {p['anchors']['files']}; mechanism: {p['anchors']['mechanism']}

Task: write ONE change to the repository source (non-test .go files under {wt}) that BREAKS this property while (a) still compiling, and (b) still passing the existing test suite of the packages you touch. The change should look like a plausible maintainer edit/refactoring/optimization gone subtly wrong, not sabotage. Prefer a change that needs something specific to manifest - an unusual input, a multi-step sequence of operations, a particular ordering, or two cooperating sites that each look fine alone - NOT one that ordinary use would expose at once. Keep it small (a few lines).

Also write a demonstration: a Go test file (package-internal, named zz_seed_demo_test.go, test function name starting with TestSeedDemo) placed in the package directory, that FAILS with your change and PASSES without it, and that checks the property's statement (not an implementation detail).

Environment (offline sandbox): run every go command with
  export PATH=/opt/veriftools/go1.26.8/bin:$PATH GOTOOLCHAIN=local GOFLAGS=-mod=mod GOPROXY=off GOSUMDB=off
and use `go test -vet=off -count=1 -timeout 600s ./internal/<pkg>/`. Nothing can be downloaded. Note: the packages internal/core, internal/api and internal/servers/hls do not compile under `go test` in this sandbox (generated go:embed files are absent) - if your change is in one of them, make the demonstration a test that can still run: either create the missing embedded placeholder files inside your worktree just for the test run (say so in notes), or extract the logic via a test in a package that builds; `go vet`/`go build ./...` style compile check of the changed package is still required (`go build ./internal/core/` may need the same placeholder files; report exactly what you did).

Deliverables, all under {wt}/seed_out/ :
  - patch.diff : `git diff` of ONLY your source change (no test files), applicable with `git apply` at the worktree root
  - zz_seed_demo_test.go : the demonstration test (copy)
  - notes.md : which package dir the demo test goes in, the exact commands you ran, their outcomes (existing tests pass with the change; demo fails with / passes without), what the change needs in order to manifest, and why existing tests miss it.
Before finishing: verify all three claims yourself by actually running the commands; leave the worktree with the change reverted (git checkout -- . and remove the demo test from the package dir), keeping only seed_out/. Report in your final message: the package dir, a one-paragraph description of the change, and what it needs to manifest.""")
