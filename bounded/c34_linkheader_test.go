package whip

// Bounded stand-in for property C34 (kept under /verif/bounded, injected into internal/protocols/whip with
// go test -overlay): "ICE server credentials written into a WHIP/WHEP Link header are read back unchanged for
// any string". The quote/unquote inverse needs an induction over the escape automaton that the SMT back ends do
// not find; instead every username/credential over the alphabet {\, ", a, ;, space, =} up to length 5 (and every
// pair up to length 3) is marshalled with the real LinkHeaderMarshal and read back with the real
// LinkHeaderUnmarshal. BOUND: alphabet of 6 bytes, single strings of length <= 5, pairs of length <= 3.

import (
	"fmt"
	"testing"

	"github.com/pion/webrtc/v4"
)

func boundedStrings(alphabet []byte, maxLen int) []string {
	out := []string{""}
	prev := []string{""}
	for l := 1; l <= maxLen; l++ {
		var cur []string
		for _, p := range prev {
			for _, c := range alphabet {
				cur = append(cur, p+string(c))
			}
		}
		out = append(out, cur...)
		prev = cur
	}
	return out
}

func TestBoundedC34LinkHeaderRoundTrip(t *testing.T) {
	alphabet := []byte{'\\', '"', 'a', ';', ' ', '='}
	n := 0
	check := func(user, cred string) {
		n++
		in := []webrtc.ICEServer{{
			URLs:           []string{"turn:example.org:3478"},
			Username:       user,
			Credential:     cred,
			CredentialType: webrtc.ICECredentialTypePassword,
		}}
		enc := LinkHeaderMarshal(in)
		out, err := LinkHeaderUnmarshal(enc)
		if err != nil {
			t.Fatalf("username %q credential %q: header %q is rejected: %v", user, cred, enc, err)
		}
		if len(out) != 1 || out[0].Username != user || out[0].Credential != cred {
			t.Fatalf("username %q credential %q: read back as %q / %q (header %q)", user, cred, out[0].Username, out[0].Credential, enc)
		}
	}
	long := boundedStrings(alphabet, 5)
	for _, s := range long {
		if s != "" { // an empty username means "no credentials" in this header format
			check(s, "x")
		}
		check("u", s)
	}
	short := boundedStrings(alphabet, 3)
	for _, u := range short {
		if u == "" {
			continue
		}
		for _, c := range short {
			check(u, c)
		}
	}
	fmt.Println("BOUNDED-EVALUATIONS:", n)
}
