package main

// Per-function verification context: sorts, declarations, script, obligations, state.

import (
	"fmt"
	"go/token"
	"go/types"
	"math/big"
	"sort"
	"strings"

	"golang.org/x/tools/go/ssa"
)

type ArithMode int

const (
	ArithInt ArithMode = iota // mathematical ints; signed ops emit ovf obligations, unsigned wrap exactly
	ArithBV                   // bit-vectors, exact Go semantics
)

// Obligation is one named proof obligation.
type Obligation struct {
	Name      string // <pkg>.<func>#<kind>.<n>
	Kind      string
	Func      string
	Pos       token.Position
	Desc      string
	ScriptLen int  // number of script lines visible to this obligation
	Guard     Term // reachability / hypothesis
	Goal      Term
	Cover     bool // cover obligation: expected SAT
	BaseLen   int  // cover.call only: script length just before the callee's postconditions were assumed
	Props     []string
	Ctx       *Ctx
	ModelVars []ModelVar // names whose values are wanted in a counterexample
	Fn        *ssa.Function
	Ct        *Contract
	Clause    *Clause

	// results
	Result  SolverResult
	Mode    string
	Retried bool
	DeadCode bool // cover.call whose site is unreachable in the code itself (before the callee's contract is assumed)
}

type ModelVar struct {
	Label string // human/go-level label, e.g. "v", "len(buf)", "buf[0]"
	Term  Term
}

// Ctx accumulates the SMT script of one function body (or one lemma).
type Ctx struct {
	W        *World
	Mode     ArithMode
	FuncName string
	Props    []string

	declKeys map[string]bool
	decls    []string
	script   []string
	obls     []*Obligation
	oblCount map[string]int

	fresh      int
	structs    map[string]string // types key -> datatype name
	strLits    map[string]string
	strLitList []string
	specDone   map[string]bool
	heapSorts  map[string]heapInfo
	typeTags   map[string]int

	trusted map[string]bool // trusted-base items used
	usedFieldInv map[*FieldInv]bool
	baseAlloc    map[int]Term // allocation bound at the start of each heap epoch
	heapAlias    map[string]Term
	slice        *sliceIndex
	notes   []string
}

type heapInfo struct {
	sort Sort
	elem Sort
	ty   types.Type // element go type (for wf axioms)
	two  bool       // two-level (ref -> idx -> elem)
	owner types.Type // struct type for field heaps
	field int
}

var _ = sort.Strings

func newCtx(w *World, fn string, mode ArithMode) *Ctx {
	c := &Ctx{W: w, Mode: mode, FuncName: fn,
		declKeys: map[string]bool{}, oblCount: map[string]int{}, structs: map[string]string{},
		strLits: map[string]string{}, specDone: map[string]bool{}, heapSorts: map[string]heapInfo{},
		typeTags: map[string]int{}, trusted: map[string]bool{}, usedFieldInv: map[*FieldInv]bool{}, baseAlloc: map[int]Term{}, heapAlias: map[string]Term{}}
	c.prelude()
	return c
}

func (c *Ctx) idxSort() Sort {
	if c.Mode == ArithBV {
		return "(_ BitVec 64)"
	}
	return SInt
}

func (c *Ctx) prelude() {
	idx := c.idxSort()
	c.decl("sort:Str", "(declare-sort Str 0)")
	c.decl("dt:Slice", fmt.Sprintf("(declare-datatypes ((Slice 0)) (((mk-slice (s.arr Int) (s.off %s) (s.len %s) (s.cap %s)))))", idx, idx, idx))
	c.decl("fn:tdiv", "(define-fun tdiv ((a Int) (b Int)) Int (ite (>= a 0) (ite (> b 0) (div a b) (- (div a (- b)))) (ite (> b 0) (- (div (- a) b)) (div (- a) (- b)))))")
	c.decl("fn:tmod", "(define-fun tmod ((a Int) (b Int)) Int (- a (* b (tdiv a b))))")
	c.decl("fn:str.len", fmt.Sprintf("(declare-fun str.len (Str) %s)", idx))
	c.decl("fn:str.at", fmt.Sprintf("(declare-fun str.at (Str %s) %s)", idx, c.intSort(8, false)))
	c.decl("fn:str.empty", "(declare-const str.empty Str)")
	c.strLits[""] = "str.empty"
	if c.Mode == ArithInt {
		c.decl("ax:strlen", "(assert (forall ((s Str)) (! (and (>= (str.len s) 0) (<= (str.len s) 281474976710655)) :pattern ((str.len s)))))")
		c.decl("ax:strempty", "(assert (forall ((s Str)) (! (=> (= (str.len s) 0) (= s str.empty)) :pattern ((str.len s)))))")
		c.decl("ax:strempty2", "(assert (= (str.len str.empty) 0))")
		c.decl("ax:strat", "(assert (forall ((s Str) (i Int)) (! (and (<= 0 (str.at s i)) (<= (str.at s i) 255)) :pattern ((str.at s i)))))")
	} else {
		c.decl("ax:strlen", "(assert (forall ((s Str)) (! (bvsge (str.len s) #x0000000000000000) :pattern ((str.len s)))))")
		c.decl("ax:strempty", "(assert (forall ((s Str)) (! (=> (= (str.len s) #x0000000000000000) (= s str.empty)) :pattern ((str.len s)))))")
		c.decl("ax:strempty2", "(assert (= (str.len str.empty) #x0000000000000000))")
	}
	// dynamic type of a reference held in an interface
	c.decl("fn:dyntype", "(declare-fun dyntype (Int) Int)")
}

func (c *Ctx) decl(key, text string) {
	if c.declKeys[key] {
		return
	}
	c.declKeys[key] = true
	c.decls = append(c.decls, text)
}

func (c *Ctx) emit(format string, args ...any) {
	c.script = append(c.script, fmt.Sprintf(format, args...))
}

func (c *Ctx) assume(t Term) {
	if t.S == "true" {
		return
	}
	c.emit("(assert %s)", t.S)
}

func (c *Ctx) freshName(hint string) string {
	c.fresh++
	return fmt.Sprintf("%s!%d", sanitizeSym(hint), c.fresh)
}

// freshConst declares an unconstrained constant.
func (c *Ctx) freshConst(hint string, s Sort) Term {
	n := c.freshName(hint)
	c.decl("const:"+n, fmt.Sprintf("(declare-const %s %s)", n, s))
	return Term{n, s}
}

// define introduces a named definition in program order.
func (c *Ctx) define(hint string, t Term) Term {
	if len(t.S) < 24 && !strings.Contains(t.S, " ") {
		return t
	}
	if hasBoundVar(t.S) {
		// inside a quantifier / definition body: bound variables cannot escape into a top-level definition
		return t
	}
	n := c.freshName(hint)
	c.emit("(define-fun %s () %s %s)", n, t.Sort, t.S)
	return Term{n, t.Sort}
}

func (c *Ctx) trust(item string) { c.trusted[item] = true }

func (c *Ctx) note(format string, args ...any) {
	c.notes = append(c.notes, fmt.Sprintf(format, args...))
}

// oblige records an obligation: under the script so far, guard ⇒ goal.
func (c *Ctx) oblige(kind string, pos token.Position, desc string, guard, goal Term) *Obligation {
	c.oblCount[kind]++
	name := fmt.Sprintf("%s#%s.%d", c.FuncName, kind, c.oblCount[kind])
	o := &Obligation{Name: name, Kind: kind, Func: c.FuncName, Pos: pos, Desc: desc,
		ScriptLen: len(c.script), Guard: guard, Goal: goal, Props: c.Props, Ctx: c}
	c.obls = append(c.obls, o)
	return o
}

func (c *Ctx) obligeNamed(name, kind string, pos token.Position, desc string, guard, goal Term) *Obligation {
	o := &Obligation{Name: c.FuncName + "#" + name, Kind: kind, Func: c.FuncName, Pos: pos, Desc: desc,
		ScriptLen: len(c.script), Guard: guard, Goal: goal, Props: c.Props, Ctx: c}
	c.obls = append(c.obls, o)
	return o
}

// queryText renders the SMT query of an obligation.
func (o *Obligation) queryText() string {
	c := o.Ctx
	var b strings.Builder
	for _, d := range c.decls {
		b.WriteString(d)
		b.WriteByte('\n')
	}
	for _, l := range c.script[:o.ScriptLen] {
		b.WriteString(l)
		b.WriteByte('\n')
	}
	if o.Cover {
		fmt.Fprintf(&b, "(assert %s)\n", And(o.Guard, o.Goal).S)
	} else {
		fmt.Fprintf(&b, "(assert %s)\n", And(o.Guard, Not(o.Goal)).S)
	}
	return b.String()
}

// ---------------------------------------------------------------------------
// sorts

func isUnsigned(t types.Type) bool {
	b, ok := t.Underlying().(*types.Basic)
	return ok && b.Info()&types.IsUnsigned != 0
}

func isInteger(t types.Type) bool {
	b, ok := t.Underlying().(*types.Basic)
	return ok && b.Info()&types.IsInteger != 0
}

func isString(t types.Type) bool {
	b, ok := t.Underlying().(*types.Basic)
	return ok && b.Info()&types.IsString != 0
}

func isBool(t types.Type) bool {
	b, ok := t.Underlying().(*types.Basic)
	return ok && b.Info()&types.IsBoolean != 0
}

func isFloat(t types.Type) bool {
	b, ok := t.Underlying().(*types.Basic)
	return ok && b.Info()&types.IsFloat != 0
}

func intWidth(t types.Type) int {
	b, ok := t.Underlying().(*types.Basic)
	if !ok {
		return 64
	}
	switch b.Kind() {
	case types.Int8, types.Uint8:
		return 8
	case types.Int16, types.Uint16:
		return 16
	case types.Int32, types.Uint32:
		return 32
	}
	return 64
}

func (c *Ctx) intSort(width int, _ bool) Sort {
	if c.Mode == ArithBV {
		return Sort(fmt.Sprintf("(_ BitVec %d)", width))
	}
	return SInt
}

func typeKey(t types.Type) string {
	return types.TypeString(t, func(p *types.Package) string { return p.Path() })
}

func isTimeTime(t types.Type) bool {
	n, ok := t.(*types.Named)
	return ok && n.Obj().Pkg() != nil && n.Obj().Pkg().Path() == "time" && n.Obj().Name() == "Time"
}

func opaqueNamed(t types.Type) (string, bool) {
	n, ok := t.(*types.Named)
	if !ok || n.Obj().Pkg() == nil {
		return "", false
	}
	switch n.Obj().Pkg().Path() + "." + n.Obj().Name() {
	case "reflect.Value":
		return "ReflectValue", true
	case "sync.Mutex", "sync.RWMutex", "sync.WaitGroup", "sync.Once":
		return "SyncOpaque", true
	}
	return "", false
}

func (c *Ctx) sortOf(t types.Type) Sort {
	if isTimeTime(t) {
		c.decl("dt:Time", "(declare-datatypes ((Time 0)) (((mk-time (t.ns Int) (t.loc Int)))))")
		return "Time"
	}
	if name, ok := opaqueNamed(t); ok {
		c.decl("sort:"+name, "(declare-sort "+name+" 0)")
		return Sort(name)
	}
	switch u := t.Underlying().(type) {
	case *types.Basic:
		switch {
		case u.Info()&types.IsBoolean != 0:
			return SBool
		case u.Info()&types.IsString != 0:
			return SStr
		case u.Info()&types.IsInteger != 0:
			return c.intSort(intWidth(t), isUnsigned(t))
		case u.Info()&types.IsFloat != 0:
			return SReal
		case u.Kind() == types.UnsafePointer || u.Kind() == types.UntypedNil:
			return SRef
		}
		if u.Info()&types.IsComplex != 0 {
			c.decl("sort:Complex", "(declare-sort Complex 0)")
			return "Complex"
		}
	case *types.Pointer, *types.Map, *types.Chan, *types.Signature, *types.Interface:
		return SRef
	case *types.Slice:
		return SSl
	case *types.Array:
		return ArraySort(c.idxSort(), c.sortOf(u.Elem()))
	case *types.Struct:
		return Sort(c.structSort(t, u))
	case *types.Tuple:
		if u.Len() == 0 {
			return SBool
		}
	case *types.TypeParam:
		c.decl("sort:TypeParam", "(declare-sort TypeParamV 0)")
		return "TypeParamV"
	}
	panic(unsupported("sort of type %s", t))
}

func (c *Ctx) structSort(t types.Type, st *types.Struct) string {
	key := typeKey(t)
	if n, ok := c.structs[key]; ok {
		return n
	}
	base := "anon"
	if n, ok := t.(*types.Named); ok {
		base = n.Obj().Name()
	}
	name := fmt.Sprintf("S_%s_%d", sanitizeSym(base), len(c.structs))
	name = strings.ReplaceAll(name, "$", "_")
	c.structs[key] = name
	var fields []string
	for i := 0; i < st.NumFields(); i++ {
		fs := c.sortOf(st.Field(i).Type())
		fields = append(fields, fmt.Sprintf("(%s %s)", c.fieldSel(name, st, i), fs))
	}
	if len(fields) == 0 {
		fields = append(fields, fmt.Sprintf("(%s.unit Bool)", name))
	}
	c.decl("dt:"+name, fmt.Sprintf("(declare-datatypes ((%s 0)) (((mk-%s %s))))", name, name, strings.Join(fields, " ")))
	return name
}

func (c *Ctx) fieldSel(dtName string, st *types.Struct, i int) string {
	n := st.Field(i).Name()
	if n == "_" || n == "" {
		n = fmt.Sprintf("blank%d", i)
	}
	return fmt.Sprintf("%s.%s", dtName, sanitizeSym(n))
}

// structField selects field i of a struct-valued term.
func (c *Ctx) structField(v Term, t types.Type, i int) Term {
	st := t.Underlying().(*types.Struct)
	name := c.structSort(t, st)
	return Term{fmt.Sprintf("(%s %s)", c.fieldSel(name, st, i), v.S), c.sortOf(st.Field(i).Type())}
}

// structUpdate returns v with field i replaced.
func (c *Ctx) structUpdate(v Term, t types.Type, i int, nv Term) Term {
	st := t.Underlying().(*types.Struct)
	name := c.structSort(t, st)
	v = c.define("su", v)
	parts := make([]string, st.NumFields())
	for j := 0; j < st.NumFields(); j++ {
		if j == i {
			parts[j] = nv.S
		} else {
			parts[j] = fmt.Sprintf("(%s %s)", c.fieldSel(name, st, j), v.S)
		}
	}
	return Term{fmt.Sprintf("(mk-%s %s)", name, strings.Join(parts, " ")), Sort(name)}
}

func (c *Ctx) structMake(t types.Type, fields []Term) Term {
	st := t.Underlying().(*types.Struct)
	name := c.structSort(t, st)
	if st.NumFields() == 0 {
		return Term{fmt.Sprintf("(mk-%s true)", name), Sort(name)}
	}
	parts := make([]string, len(fields))
	for i, f := range fields {
		parts[i] = f.S
	}
	return Term{fmt.Sprintf("(mk-%s %s)", name, strings.Join(parts, " ")), Sort(name)}
}

// ---------------------------------------------------------------------------
// integer literals and ranges

func (c *Ctx) intLit(v *big.Int, t types.Type) Term {
	if c.Mode == ArithBV {
		w := intWidth(t)
		m := new(big.Int).Lsh(big.NewInt(1), uint(w))
		x := new(big.Int).Mod(v, m)
		return Term{fmt.Sprintf("(_ bv%s %d)", x.String(), w), c.intSort(w, false)}
	}
	return IntLit(v.String())
}

func (c *Ctx) intLit64(v int64, t types.Type) Term { return c.intLit(big.NewInt(v), t) }

func (c *Ctx) idxLit(v int64) Term { return c.intLit(big.NewInt(v), types.Typ[types.Int]) }

func typeRange(t types.Type) (lo, hi *big.Int) {
	w := intWidth(t)
	if isUnsigned(t) {
		return big.NewInt(0), new(big.Int).Sub(new(big.Int).Lsh(big.NewInt(1), uint(w)), big.NewInt(1))
	}
	h := new(big.Int).Lsh(big.NewInt(1), uint(w-1))
	return new(big.Int).Neg(h), new(big.Int).Sub(h, big.NewInt(1))
}

// inRange is the predicate "x fits type t" (Int mode only; true in BV mode).
func (c *Ctx) inRange(x Term, t types.Type) Term {
	if c.Mode == ArithBV || !isInteger(t) {
		return tTrue
	}
	lo, hi := typeRange(t)
	return T(SBool, "(and (<= %s %s) (<= %s %s))", IntLit(lo.String()).S, x.S, x.S, hi.String())
}

// rangeFact returns the type invariant of a value of type t as far as it is first-order.
func (c *Ctx) rangeFact(x Term, t types.Type) Term {
	if isInteger(t) {
		return c.inRange(x, t)
	}
	switch t.Underlying().(type) {
	case *types.Slice:
		return c.sliceWF(x)
	}
	return tTrue
}

func (c *Ctx) sliceWF(s Term) Term {
	if c.Mode == ArithBV {
		return T(SBool, "(and (bvsle #x0000000000000000 (s.off %[1]s)) (bvsle #x0000000000000000 (s.len %[1]s)) (bvsle (s.len %[1]s) (s.cap %[1]s)) (bvsle (s.cap %[1]s) #x0000ffffffffffff) (bvsle (s.off %[1]s) #x0000ffffffffffff) (>= (s.arr %[1]s) 0) (=> (= (s.arr %[1]s) 0) (= (s.cap %[1]s) #x0000000000000000)))", s.S)
	}
	return T(SBool, "(and (<= 0 (s.off %[1]s)) (<= 0 (s.len %[1]s)) (<= (s.len %[1]s) (s.cap %[1]s)) (<= (+ (s.off %[1]s) (s.cap %[1]s)) 281474976710655) (>= (s.arr %[1]s) 0) (=> (= (s.arr %[1]s) 0) (= (s.cap %[1]s) 0)))", s.S)
}

// ---------------------------------------------------------------------------
// zero values

func (c *Ctx) zero(t types.Type) Term {
	if isTimeTime(t) {
		c.sortOf(t)
		return Term{"(mk-time time.zero.ns 0)", "Time"}
	}
	if name, ok := opaqueNamed(t); ok {
		c.sortOf(t)
		c.decl("const:zero."+name, fmt.Sprintf("(declare-const zero.%s %s)", name, name))
		return Term{"zero." + name, Sort(name)}
	}
	switch u := t.Underlying().(type) {
	case *types.Basic:
		switch {
		case u.Info()&types.IsBoolean != 0:
			return tFalse
		case u.Info()&types.IsString != 0:
			return Term{"str.empty", SStr}
		case u.Info()&types.IsInteger != 0:
			return c.intLit64(0, t)
		case u.Info()&types.IsFloat != 0:
			return Term{"0.0", SReal}
		}
		return Term{"0", SRef}
	case *types.Pointer, *types.Map, *types.Chan, *types.Signature, *types.Interface:
		return Term{"0", SRef}
	case *types.Slice:
		z := c.idxLit(0)
		return Term{fmt.Sprintf("(mk-slice 0 %s %s %s)", z.S, z.S, z.S), SSl}
	case *types.Array:
		es := c.sortOf(u.Elem())
		return Term{fmt.Sprintf("((as const %s) %s)", ArraySort(c.idxSort(), es), c.zero(u.Elem()).S), ArraySort(c.idxSort(), es)}
	case *types.Struct:
		fs := make([]Term, u.NumFields())
		for i := range fs {
			fs[i] = c.zero(u.Field(i).Type())
		}
		return c.structMake(t, fs)
	}
	s := c.sortOf(t)
	return c.freshConst("zero", s)
}

// ---------------------------------------------------------------------------
// string literals

func (c *Ctx) strLit(s string) Term {
	if n, ok := c.strLits[s]; ok {
		return Term{n, SStr}
	}
	n := fmt.Sprintf("str.lit%d", len(c.strLits))
	c.strLits[s] = n
	c.strLitList = append(c.strLitList, s)
	c.decl("const:"+n, fmt.Sprintf("(declare-const %s Str) ; %q", n, truncate(s, 60)))
	c.decl("ax:len:"+n, fmt.Sprintf("(assert (= (str.len %s) %s))", n, c.idxLit(int64(len(s))).S))
	if len(s) <= 40 {
		for i := 0; i < len(s); i++ {
			c.decl(fmt.Sprintf("ax:at:%s:%d", n, i), fmt.Sprintf("(assert (= (str.at %s %s) %s))", n, c.idxLit(int64(i)).S, c.intLit64(int64(s[i]), types.Typ[types.Uint8]).S))
		}
	}
	// distinctness from previously introduced literals
	for other, on := range c.strLits {
		if other != s {
			a, b := n, on
			if a > b {
				a, b = b, a
			}
			c.decl("ax:ne:"+a+":"+b, fmt.Sprintf("(assert (not (= %s %s)))", a, b))
		}
	}
	return Term{n, SStr}
}

func truncate(s string, n int) string {
	if len(s) > n {
		return s[:n] + "..."
	}
	return s
}

// typeTag gives a distinct integer per dynamic type.
func (c *Ctx) typeTag(t types.Type) Term {
	k := typeKey(t)
	if v, ok := c.typeTags[k]; ok {
		return IntLit(fmt.Sprint(v))
	}
	v := len(c.typeTags) + 1
	c.typeTags[k] = v
	return IntLit(fmt.Sprint(v))
}

// ---------------------------------------------------------------------------
// symbolic state

// State is the symbolic machine state at a program point.
type State struct {
	cells map[*ssa.Alloc]Term // non-escaping locals
	heaps map[string]Term     // heap arrays by key; missing = version "base" of that key
	base  int                 // epoch of untouched heaps (0 = function entry)
	alts  []baseAlt           // after a merge of different epochs: which epoch applies under which condition
	alloc Term                // allocation counter
	ghost map[string]Term     // ghost call counters (called(f))
}

func (s *State) clone() *State {
	n := &State{cells: make(map[*ssa.Alloc]Term, len(s.cells)), heaps: make(map[string]Term, len(s.heaps)), alloc: s.alloc, base: s.base, alts: append([]baseAlt{}, s.alts...)}
	for k, v := range s.cells {
		n.cells[k] = v
	}
	for k, v := range s.heaps {
		n.heaps[k] = v
	}
	if s.ghost != nil {
		n.ghost = make(map[string]Term, len(s.ghost))
		for k, v := range s.ghost {
			n.ghost[k] = v
		}
	}
	return n
}

func sortedKeys[V any](m map[string]V) []string {
	ks := make([]string, 0, len(m))
	for k := range m {
		ks = append(ks, k)
	}
	sort.Strings(ks)
	return ks
}

// heap keys (each constructor registers the array sort):
//   F:<struct type key>#<field index>      per-field heap  Ref -> fieldSort
//   E:<elem type key>                      slice element heap Ref -> (Idx -> elem)
//   B:<type key>                           boxes (pointers to non-struct values) Ref -> sort
//   MH:<map type key>  MV:..  ML:..        map has / value / len
//   G:<pkg>.<name>                         package-level variable (0-dim)

func (c *Ctx) regHeap(key string, info heapInfo) string {
	if _, ok := c.heapSorts[key]; !ok {
		c.heapSorts[key] = info
	}
	return key
}

func (c *Ctx) keyField(t types.Type, i int) string {
	st := t.Underlying().(*types.Struct)
	ft := st.Field(i).Type()
	fs := c.sortOf(ft)
	return c.regHeap(fmt.Sprintf("F:%s#%d.%s", typeKey(t), i, st.Field(i).Name()), heapInfo{sort: ArraySort(SRef, fs), elem: fs, ty: ft, owner: t, field: i})
}

func (c *Ctx) keyElem(et types.Type) string {
	es := c.sortOf(et)
	return c.regHeap("E:"+typeKey(et), heapInfo{sort: ArraySort(SRef, ArraySort(c.idxSort(), es)), elem: es, ty: et, two: true})
}

func (c *Ctx) keyBox(t types.Type) string {
	s := c.sortOf(t)
	return c.regHeap("B:"+typeKey(t), heapInfo{sort: ArraySort(SRef, s), elem: s, ty: t})
}

func (c *Ctx) keyGlobal(g *ssa.Global) string {
	t := g.Type().(*types.Pointer).Elem()
	s := c.sortOf(t)
	return c.regHeap("G:"+g.Pkg.Pkg.Path()+"."+g.Name(), heapInfo{sort: s, elem: s})
}

func (c *Ctx) keyMapHas(mt *types.Map) string {
	ks := c.sortOf(mt.Key())
	return c.regHeap("MH:"+typeKey(mt), heapInfo{sort: ArraySort(SRef, ArraySort(ks, SBool)), elem: SBool})
}

func (c *Ctx) keyMapVal(mt *types.Map) string {
	ks := c.sortOf(mt.Key())
	vs := c.sortOf(mt.Elem())
	return c.regHeap("MV:"+typeKey(mt), heapInfo{sort: ArraySort(SRef, ArraySort(ks, vs)), elem: vs})
}

// keyMapVisited: ghost state of map iteration - the set of keys already produced by the range loop over the map
// (one active iteration per map object is modelled).
func (c *Ctx) keyMapVisited(mt *types.Map) string {
	ks := c.sortOf(mt.Key())
	return c.regHeap("MVIS:"+typeKey(mt), heapInfo{sort: ArraySort(SRef, ArraySort(ks, SBool)), elem: SBool})
}

func (c *Ctx) keyMapLen(mt *types.Map) string {
	return c.regHeap("ML:"+typeKey(mt), heapInfo{sort: ArraySort(SRef, c.idxSort()), elem: c.idxSort()})
}

func (c *Ctx) heapConst(name string, key string) Term {
	info := c.heapSorts[key]
	if !c.declKeys["const:"+name] {
		c.decl("const:"+name, fmt.Sprintf("(declare-const %s %s) ; %s", name, info.sort, key))
		c.heapWF(Term{name, info.sort}, info)
	}
	return Term{name, info.sort}
}

// heapEpochConst is the heap of an epoch (the entry state, or the state after a havoc of everything).
// Besides the type invariants it is closed under the allocation bound of the epoch: every reference
// stored in it denotes an object that existed when the epoch began.
func (c *Ctx) heapEpochConst(base int, key string) Term {
	name := fmt.Sprintf("H%d.%s", base, sanitizeSym(key))
	fresh := !c.declKeys["const:"+name]
	h := c.heapConst(name, key)
	if fresh {
		bound := "alloc0"
		if base != 0 {
			b, ok := c.baseAlloc[base]
			if !ok {
				return h
			}
			bound = b.S
		}
		info := c.heapSorts[key]
		if info.ty == nil {
			return h
		}
		sel := fmt.Sprintf("(select %s r)", h.S)
		bind := "((r Int))"
		if info.two {
			sel = fmt.Sprintf("(select (select %s r) i)", h.S)
			bind = fmt.Sprintf("((r Int) (i %s))", c.idxSort())
		}
		if isTimeTime(info.ty) {
			return h
		}
		if _, op := opaqueNamed(info.ty); op {
			return h
		}
		switch info.ty.Underlying().(type) {
		case *types.Pointer, *types.Map, *types.Chan, *types.Interface, *types.Signature:
			c.decl("wfclosed:"+h.S, fmt.Sprintf("(assert (forall %s (! (< %s %s) :pattern (%s))))", bind, sel, bound, sel))
		case *types.Slice:
			c.decl("wfclosed:"+h.S, fmt.Sprintf("(assert (forall %s (! (< (s.arr %s) %s) :pattern (%s))))", bind, sel, bound, sel))
		}
	}
	return h
}

// heapWF asserts type invariants of every cell of a heap array (Int mode ranges, slice shapes).
func (c *Ctx) heapWF(h Term, info heapInfo) {
	if strings.HasPrefix(h.S, "H") && strings.Contains(h.S, ".ML_") && c.Mode == ArithInt {
		// ghost cardinality of maps: never negative
		c.decl("wfml:"+h.S, fmt.Sprintf("(assert (forall ((r Int)) (! (>= (select %s r) 0) :pattern ((select %s r)))))", h.S, h.S))
	}
	if info.ty == nil {
		return
	}
	sel := fmt.Sprintf("(select %s r)", h.S)
	bind := "((r Int))"
	if info.two {
		sel = fmt.Sprintf("(select (select %s r) i)", h.S)
		bind = fmt.Sprintf("((r Int) (i %s))", c.idxSort())
	}
	if info.owner != nil && c.Mode == ArithInt && c.W != nil {
		if fi := c.W.fieldInvFor(info.owner, info.field); fi != nil {
			c.decl("wfinv:"+h.S, fmt.Sprintf("(assert (forall ((r Int)) (! (and (<= %s (select %s r)) (<= (select %s r) %s)) :pattern ((select %s r)))))", fi.Lo, h.S, h.S, fi.Hi, h.S))
			c.note("field invariant %s.%s in [%s, %s] used (proved at every store by the fieldinv obligations)", fi.Type, fi.Field, fi.Lo, fi.Hi)
			c.usedFieldInv[fi] = true
		}
	}
	if info.owner != nil && c.Mode == ArithInt && c.W != nil && isInteger(info.ty) && !info.two {
		// assumed range of a field of an external (library) struct type, from /verif/stubs ("field T.F range lo hi")
		if st, ok := info.owner.Underlying().(*types.Struct); ok && info.field < st.NumFields() {
			if fr, ok := c.W.FieldRanges[typeKey(info.owner)+"."+st.Field(info.field).Name()]; ok {
				c.decl("wffr:"+h.S, fmt.Sprintf("(assert (forall ((r Int)) (! (and (<= %s (select %s r)) (<= (select %s r) %s)) :pattern ((select %s r)))))", fr.Lo, h.S, h.S, fr.Hi, h.S))
				c.trust(fmt.Sprintf("assumed range of library field %s.%s in [%s, %s] (%s:%d)", typeKey(info.owner), st.Field(info.field).Name(), fr.Lo, fr.Hi, relFile(fr.File), fr.Line))
			}
		}
	}
	if isInteger(info.ty) && c.Mode == ArithInt {
		c.decl("wf:"+h.S,fmt.Sprintf("(assert (forall %s (! %s :pattern (%s))))", bind, c.inRange(Term{sel, SInt}, info.ty).S, sel))
	}
	if _, ok := info.ty.Underlying().(*types.Slice); ok {
		c.decl("wf:"+h.S, fmt.Sprintf("(assert (forall %s (! %s :pattern (%s))))", bind, c.sliceWF(Term{sel, SSl}).S, sel))
	}
}

type baseAlt struct {
	cond Term
	base int
}

func (c *Ctx) heapGet(st *State, key string) Term {
	if t, ok := st.heaps[key]; ok {
		return t
	}
	if len(st.alts) > 0 {
		// a key first used after a merge of different epochs: the merged value, materialised lazily
		conds := make([]Term, len(st.alts))
		vals := make([]Term, len(st.alts))
		for i, a := range st.alts {
			conds[i] = a.cond
			vals[i] = c.heapEpochConst(a.base, key)
		}
		t := c.define("mH."+key, iteChain(conds, vals))
		st.heaps[key] = t
		return t
	}
	return c.heapEpochConst(st.base, key)
}

func (c *Ctx) heapSet(st *State, key string, v Term) {
	st.heaps[key] = c.define("H."+key, v)
}

func (c *Ctx) heapHavoc(st *State, key string) {
	n := c.freshName("Hh." + key)
	st.heaps[key] = c.heapConst(n, key)
}

func (c *Ctx) heapHavocAll(st *State) {
	c.fresh++
	st.base = c.fresh
	// whatever changed the heap may also have allocated; the new epoch's allocation bound
	na := c.freshConst("alloc.e", SInt)
	c.assume(T(SBool, "(>= %s %s)", na.S, st.alloc.S))
	st.alloc = na
	c.baseAlloc[st.base] = na
	st.alts = nil
	st.heaps = map[string]Term{}
}

type unsupportedErr struct{ msg string }

func (u unsupportedErr) Error() string { return u.msg }

func unsupported(format string, args ...any) unsupportedErr {
	return unsupportedErr{fmt.Sprintf(format, args...)}
}
