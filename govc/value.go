package main

// Symbolic values, locations and arithmetic shared by the SSA executor and the contract evaluator.

import (
	"fmt"
	"go/constant"
	"go/token"
	"go/types"
	"math/big"

	"golang.org/x/tools/go/ssa"
)

// Val is a typed symbolic value.
type Val struct {
	T     Term
	Ty    types.Type
	Tuple []Val
	Loc   *Loc           // statically known address (SSA address values)
	Const constant.Value // untyped constant not yet materialised (contract expressions)
	Wide  bool           // BV mode, spec side: 128-bit two's complement
	Fn    *ssa.Function  // statically known function value
	Bind  []Val          // closure bindings
}

type LocKind int

const (
	LCell   LocKind = iota // non-escaping local
	LField                 // field of a heap struct: Ref, StructT, Field
	LStruct                // whole heap struct at Ref (StructT)
	LElem                  // slice/array element: Ref (array ref), ElemT, Idx (absolute index)
	LBox                   // boxed non-struct value at Ref
	LGlobal                // package-level variable
)

type pathStep struct {
	field int          // struct field index (idx == nil)
	idx   *Term        // array index
	cont  types.Type   // container type at this step
}

type Loc struct {
	Kind    LocKind
	Cell    *ssa.Alloc
	Ref     Term
	StructT types.Type
	Field   int
	ElemT   types.Type
	Idx     Term
	Global  *ssa.Global
	Path    []pathStep
	Ty      types.Type // type of the value stored at the location
	SliceT  Term       // LElem reached through a slice value: the slice and the relative index
	RelIdx  Term
}

func (l *Loc) withStep(s pathStep, ty types.Type) *Loc {
	n := *l
	n.Path = append(append([]pathStep{}, l.Path...), s)
	n.Ty = ty
	return &n
}

// ---------------------------------------------------------------------------
// arithmetic

func pow2(n int) *big.Int { return new(big.Int).Lsh(big.NewInt(1), uint(n)) }

// wrapInt reduces a mathematical integer term into the range of type t (Int mode).
func (c *Ctx) wrapInt(x Term, t types.Type) Term {
	w := intWidth(t)
	m := pow2(w).String()
	if isUnsigned(t) {
		return T(SInt, "(mod %s %s)", x.S, m)
	}
	h := pow2(w - 1).String()
	return T(SInt, "(- (mod (+ %s %s) %s) %s)", x.S, h, m, h)
}

type arithOpts struct {
	spec     bool           // specification-side: mathematical, no obligations
	pos      token.Position // for obligations
	guard    Term
	safety   func(kind string) bool
	trustOvf bool
	wraps    bool // this op intentionally wraps
}

func (c *Ctx) bvBin(op string, x, y Term) Term {
	return Term{fmt.Sprintf("(%s %s %s)", op, x.S, y.S), x.Sort}
}

// widen extends a BV term of Go type t to 128 bits.
func (c *Ctx) widen(v Val) Term {
	if v.Wide {
		return v.T
	}
	w := intWidth(v.Ty)
	if isUnsigned(v.Ty) {
		return Term{fmt.Sprintf("((_ zero_extend %d) %s)", 128-w, v.T.S), "(_ BitVec 128)"}
	}
	return Term{fmt.Sprintf("((_ sign_extend %d) %s)", 128-w, v.T.S), "(_ BitVec 128)"}
}

// narrow truncates a wide value to the width of t.
func (c *Ctx) narrow(v Val, t types.Type) Term {
	if !v.Wide {
		return v.T
	}
	w := intWidth(t)
	return Term{fmt.Sprintf("((_ extract %d 0) %s)", w-1, v.T.S), c.intSort(w, false)}
}

// materialise turns an untyped constant into a term of type t.
func (c *Ctx) materialise(v Val, t types.Type) Val {
	if v.Const == nil {
		return v
	}
	switch {
	case isInteger(t):
		i, ok := constant.Val(constant.ToInt(v.Const)).(*big.Int)
		if !ok {
			if i64, ok2 := constant.Int64Val(constant.ToInt(v.Const)); ok2 {
				i = big.NewInt(i64)
			} else {
				panic(unsupported("constant %s", v.Const))
			}
		}
		return Val{T: c.intLit(i, t), Ty: t}
	case isFloat(t):
		f, _ := constant.Float64Val(v.Const)
		return Val{T: Term{fmt.Sprintf("%f", f), SReal}, Ty: t}
	case isString(t):
		return Val{T: c.strLit(constant.StringVal(v.Const)), Ty: t}
	case isBool(t):
		if constant.BoolVal(v.Const) {
			return Val{T: tTrue, Ty: t}
		}
		return Val{T: tFalse, Ty: t}
	}
	// nil
	return Val{T: c.zero(t), Ty: t}
}

func bigOf(cv constant.Value) *big.Int {
	cv = constant.ToInt(cv)
	if cv.Kind() != constant.Int {
		return nil
	}
	switch x := constant.Val(cv).(type) {
	case *big.Int:
		return x
	case int64:
		return big.NewInt(x)
	}
	return nil
}

// constOf extracts a literal integer from a term if it is one (Int mode).
func litInt(t Term) *big.Int {
	s := t.S
	neg := false
	if len(s) > 4 && s[:3] == "(- " && s[len(s)-1] == ')' {
		neg = true
		s = s[3 : len(s)-1]
	}
	if len(s) > 5 && s[:5] == "(_ bv" {
		var v big.Int
		var w int
		var digits string
		if _, err := fmt.Sscanf(s, "(_ bv%s %d)", &digits, &w); err == nil {
			if _, ok := v.SetString(digits, 10); ok {
				return &v
			}
		}
		return nil
	}
	for _, ch := range s {
		if ch < '0' || ch > '9' {
			return nil
		}
	}
	if s == "" {
		return nil
	}
	v, ok := new(big.Int).SetString(s, 10)
	if !ok {
		return nil
	}
	if neg {
		v.Neg(v)
	}
	return v
}

// intBinop computes x op y for integer operands of Go type t (result type t, or bool for comparisons).
func (c *Ctx) intBinop(op token.Token, x, y Val, t types.Type, o *arithOpts, ex *Exec) Val {
	if c.Mode == ArithBV {
		return c.bvBinop(op, x, y, t, o, ex)
	}
	a, b := x.T, y.T
	switch op {
	case token.ADD, token.SUB, token.MUL:
		sym := map[token.Token]string{token.ADD: "+", token.SUB: "-", token.MUL: "*"}[op]
		r := T(SInt, "(%s %s %s)", sym, a.S, b.S)
		if o.spec {
			return Val{T: r, Ty: t}
		}
		if isUnsigned(t) || o.wraps {
			return Val{T: c.wrapInt(r, t), Ty: t}
		}
		if ex != nil {
			r = ex.c.define("ar", r)
			ex.obligeSafety("ovf", o.pos, fmt.Sprintf("%s of type %s does not overflow", op, t), c.inRange(r, t))
		}
		return Val{T: r, Ty: t}
	case token.QUO, token.REM:
		if ex != nil && !o.spec {
			ex.obligeSafety("div0", o.pos, "divisor is not zero", Not(Eq(b, IntLit("0"))))
		}
		var r Term
		if op == token.QUO {
			if isUnsigned(t) {
				r = T(SInt, "(div %s %s)", a.S, b.S)
			} else {
				r = T(SInt, "(tdiv %s %s)", a.S, b.S)
				if ex != nil && !o.spec {
					r = ex.c.define("ar", r)
					ex.obligeSafety("ovf", o.pos, "quotient does not overflow", c.inRange(r, t))
				}
			}
		} else {
			if isUnsigned(t) {
				r = T(SInt, "(mod %s %s)", a.S, b.S)
			} else {
				r = T(SInt, "(tmod %s %s)", a.S, b.S)
			}
		}
		return Val{T: r, Ty: t}
	case token.EQL:
		return Val{T: Eq(a, b), Ty: types.Typ[types.Bool]}
	case token.NEQ:
		return Val{T: Not(Eq(a, b)), Ty: types.Typ[types.Bool]}
	case token.LSS, token.LEQ, token.GTR, token.GEQ:
		sym := map[token.Token]string{token.LSS: "<", token.LEQ: "<=", token.GTR: ">", token.GEQ: ">="}[op]
		return Val{T: T(SBool, "(%s %s %s)", sym, a.S, b.S), Ty: types.Typ[types.Bool]}
	case token.SHL:
		if k := litInt(b); k != nil && k.Sign() >= 0 && k.Cmp(big.NewInt(127)) <= 0 {
			r := T(SInt, "(* %s %s)", a.S, pow2(int(k.Int64())).String())
			if o.spec {
				return Val{T: r, Ty: t}
			}
			return Val{T: c.wrapInt(r, t), Ty: t}
		}
	case token.SHR:
		if k := litInt(b); k != nil && k.Sign() >= 0 && k.Cmp(big.NewInt(127)) <= 0 {
			// arithmetic shift = floor division
			return Val{T: T(SInt, "(div %s %s)", a.S, pow2(int(k.Int64())).String()), Ty: t}
		}
	case token.AND:
		for _, sw := range [][2]Term{{a, b}, {b, a}} {
			if m := litInt(sw[1]); m != nil && m.Sign() >= 0 {
				if r, ok := c.maskInt(sw[0], m, t); ok {
					return Val{T: r, Ty: t}
				}
			}
		}
	case token.OR:
		// x | y where the operands are provably disjoint is not tracked; fall through to UF
	}
	// uninterpreted bit operation with range axioms
	name := fmt.Sprintf("bitop.%s.%d%v", tokName(op), intWidth(t), isUnsigned(t))
	c.decl("fn:"+name, fmt.Sprintf("(declare-fun %s (Int Int) Int)", name))
	lo, hi := typeRange(t)
	c.decl("ax:"+name, fmt.Sprintf("(assert (forall ((a Int) (b Int)) (! (and (<= %s (%s a b)) (<= (%s a b) %s)) :pattern ((%s a b)))))", IntLit(lo.String()).S, name, name, hi.String(), name))
	if op == token.AND && isUnsigned(t) {
		c.decl("ax2:"+name, fmt.Sprintf("(assert (forall ((a Int) (b Int)) (! (=> (and (>= a 0) (>= b 0)) (and (<= (%s a b) a) (<= (%s a b) b))) :pattern ((%s a b)))))", name, name, name))
	}
	c.note("bit operation %s modelled as uninterpreted function %s (Int mode)", op, name)
	return Val{T: T(SInt, "(%s %s %s)", name, a.S, b.S), Ty: t}
}

func tokName(op token.Token) string {
	switch op {
	case token.AND:
		return "and"
	case token.OR:
		return "or"
	case token.XOR:
		return "xor"
	case token.SHL:
		return "shl"
	case token.SHR:
		return "shr"
	case token.AND_NOT:
		return "andnot"
	}
	return "op"
}

// maskInt models x & m for a constant mask of contiguous bits (Int mode), x >= 0 or two's complement of width.
func (c *Ctx) maskInt(x Term, m *big.Int, t types.Type) (Term, bool) {
	if m.Sign() == 0 {
		return IntLit("0"), true
	}
	lo := 0
	for m.Bit(lo) == 0 {
		lo++
	}
	hi := m.BitLen() // bits [lo, hi)
	for i := lo; i < hi; i++ {
		if m.Bit(i) == 0 {
			return Term{}, false
		}
	}
	// ((x div 2^lo) mod 2^(hi-lo)) * 2^lo ; Int div/mod are floor/euclidean so this is two's-complement correct
	r := T(SInt, "(mod (div %s %s) %s)", x.S, pow2(lo).String(), pow2(hi-lo).String())
	if lo > 0 {
		r = T(SInt, "(* %s %s)", r.S, pow2(lo).String())
	}
	return r, true
}

func (c *Ctx) bvLit(v int64, w int) Term {
	return Term{fmt.Sprintf("(_ bv%d %d)", v, w), Sort(fmt.Sprintf("(_ BitVec %d)", w))}
}

func (c *Ctx) bvBinop(op token.Token, x, y Val, t types.Type, o *arithOpts, ex *Exec) Val {
	unsigned := isUnsigned(t)
	var a, b Term
	wide := false
	if o.spec && (x.Wide || y.Wide || op == token.ADD || op == token.SUB || op == token.MUL || op == token.QUO || op == token.REM ||
		op == token.LSS || op == token.LEQ || op == token.GTR || op == token.GEQ || op == token.EQL || op == token.NEQ) {
		a, b = c.widen(x), c.widen(y)
		wide = true
		unsigned = false
	} else {
		a, b = x.T, y.T
		if a.Sort != b.Sort && (op == token.SHL || op == token.SHR) {
			// shift count of different width: resize count
			b = c.bvResize(y.T, intWidth(y.Ty), intWidth(t), false)
		}
	}
	boolT := types.Typ[types.Bool]
	switch op {
	case token.ADD:
		return Val{T: c.bvBin("bvadd", a, b), Ty: t, Wide: wide}
	case token.SUB:
		return Val{T: c.bvBin("bvsub", a, b), Ty: t, Wide: wide}
	case token.MUL:
		return Val{T: c.bvBin("bvmul", a, b), Ty: t, Wide: wide}
	case token.QUO, token.REM:
		if ex != nil && !o.spec {
			ex.obligeSafety("div0", o.pos, "divisor is not zero", Not(Eq(b, c.bvLit(0, intWidth(t)))))
		}
		name := "bvsdiv"
		if op == token.REM {
			name = "bvsrem"
		}
		if unsigned {
			name = "bvudiv"
			if op == token.REM {
				name = "bvurem"
			}
		}
		return Val{T: c.bvBin(name, a, b), Ty: t, Wide: wide}
	case token.AND:
		return Val{T: c.bvBin("bvand", a, b), Ty: t, Wide: wide}
	case token.OR:
		return Val{T: c.bvBin("bvor", a, b), Ty: t, Wide: wide}
	case token.XOR:
		return Val{T: c.bvBin("bvxor", a, b), Ty: t, Wide: wide}
	case token.AND_NOT:
		return Val{T: c.bvBin("bvand", a, Term{"(bvnot " + b.S + ")", b.Sort}), Ty: t, Wide: wide}
	case token.SHL:
		return Val{T: c.bvBin("bvshl", a, b), Ty: t, Wide: wide}
	case token.SHR:
		if unsigned {
			return Val{T: c.bvBin("bvlshr", a, b), Ty: t, Wide: wide}
		}
		return Val{T: c.bvBin("bvashr", a, b), Ty: t, Wide: wide}
	case token.EQL:
		return Val{T: Eq(a, b), Ty: boolT}
	case token.NEQ:
		return Val{T: Not(Eq(a, b)), Ty: boolT}
	case token.LSS, token.LEQ, token.GTR, token.GEQ:
		var name string
		if unsigned {
			name = map[token.Token]string{token.LSS: "bvult", token.LEQ: "bvule", token.GTR: "bvugt", token.GEQ: "bvuge"}[op]
		} else {
			name = map[token.Token]string{token.LSS: "bvslt", token.LEQ: "bvsle", token.GTR: "bvsgt", token.GEQ: "bvsge"}[op]
		}
		return Val{T: Term{fmt.Sprintf("(%s %s %s)", name, a.S, b.S), SBool}, Ty: boolT}
	}
	panic(unsupported("bv binop %s", op))
}

func (c *Ctx) bvResize(x Term, from, to int, signed bool) Term {
	s := c.intSort(to, false)
	switch {
	case from == to:
		return x
	case from > to:
		return Term{fmt.Sprintf("((_ extract %d 0) %s)", to-1, x.S), s}
	case signed:
		return Term{fmt.Sprintf("((_ sign_extend %d) %s)", to-from, x.S), s}
	}
	return Term{fmt.Sprintf("((_ zero_extend %d) %s)", to-from, x.S), s}
}

// convertInt converts an integer value between Go integer types (exact Go semantics).
func (c *Ctx) convertInt(v Val, to types.Type, spec bool) Val {
	from := v.Ty
	if c.Mode == ArithBV {
		if v.Wide {
			// specification side: conversions to 64-bit types keep the mathematical value,
			// conversions to narrower types truncate (byte(x), uint32(x), ...)
			if spec && intWidth(to) >= 64 {
				return Val{T: v.T, Ty: to, Wide: true}
			}
			return Val{T: c.narrow(v, to), Ty: to}
		}
		return Val{T: c.bvResize(v.T, intWidth(from), intWidth(to), !isUnsigned(from)), Ty: to}
	}
	if spec {
		// specification side: mathematical integers; only narrowing conversions truncate
		if intWidth(to) >= 64 {
			return Val{T: v.T, Ty: to}
		}
		flo, fhi := typeRange(from)
		tlo, thi := typeRange(to)
		if flo.Cmp(tlo) >= 0 && fhi.Cmp(thi) <= 0 {
			return Val{T: v.T, Ty: to}
		}
		return Val{T: c.wrapInt(v.T, to), Ty: to}
	}
	flo, fhi := typeRange(from)
	tlo, thi := typeRange(to)
	if flo.Cmp(tlo) >= 0 && fhi.Cmp(thi) <= 0 {
		return Val{T: v.T, Ty: to}
	}
	return Val{T: c.wrapInt(v.T, to), Ty: to}
}
