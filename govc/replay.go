package main

// Replay of solver counterexamples against the real code: the model's values for the parameters are
// turned into a Go test that is injected with `go test -overlay` (nothing is written to /repo), calls the
// real function and evaluates the executable form of the contract (or expects the panic for safety
// obligations). Supported parameter shapes: integers, booleans, strings, []byte, pointers to basic named
// types and to structs with scalar / time.Time / string fields.

import (
	"encoding/json"
	"fmt"
	"go/ast"
	"go/token"
	"go/types"
	"math/big"
	"os"
	"os/exec"
	"path/filepath"
	"strconv"
	"strings"
	"time"

	"golang.org/x/tools/go/ssa"
)

// getValues asks the solver that found the counterexample for the values of the given terms.
func getValues(ob *Obligation, terms []string, pins []string) (map[string]string, error) {
	if len(terms) == 0 {
		return map[string]string{}, nil
	}
	dir, err := os.MkdirTemp("", "govc-r-")
	if err != nil {
		return nil, err
	}
	defer os.RemoveAll(dir)
	q := strings.ReplaceAll(ob.slicedQuery(), "str.", "gstr.")
	var b strings.Builder
	b.WriteString("(set-option :produce-models true)\n")
	b.WriteString(q)
	for _, p := range pins {
		b.WriteString("(assert " + strings.ReplaceAll(p, "str.", "gstr.") + ")\n")
	}
	b.WriteString("(check-sat)\n(get-value (")
	for _, t := range terms {
		b.WriteString(strings.ReplaceAll(t, "str.", "gstr.") + " ")
	}
	b.WriteString("))\n")
	file := filepath.Join(dir, "q.smt2")
	if err := os.WriteFile(file, []byte(b.String()), 0o644); err != nil {
		return nil, err
	}
	out, _ := exec.Command("z3-new", "-T:30", "-smt2", file).CombinedOutput()
	s := string(out)
	// drop warnings
	var lines []string
	for _, l := range strings.Split(s, "\n") {
		if strings.HasPrefix(strings.TrimSpace(l), "WARNING") {
			continue
		}
		lines = append(lines, l)
	}
	s = strings.TrimSpace(strings.Join(lines, "\n"))
	if !strings.HasPrefix(s, "sat") {
		return nil, fmt.Errorf("solver did not confirm sat for value extraction: %s", firstLines(s, 2))
	}
	s = strings.TrimSpace(strings.TrimPrefix(s, "sat"))
	// parse ((term value) (term value) ...)
	sx, _, err := parseSexp(s, 0)
	if err != nil {
		return nil, err
	}
	res := map[string]string{}
	for i, pair := range sx.list {
		if len(pair.list) == 2 && i < len(terms) {
			res[terms[i]] = pair.list[1].String()
		}
	}
	return res, nil
}

type sexp struct {
	atom string
	list []*sexp
}

func (s *sexp) String() string {
	if s.list == nil {
		return s.atom
	}
	parts := make([]string, len(s.list))
	for i, x := range s.list {
		parts[i] = x.String()
	}
	return "(" + strings.Join(parts, " ") + ")"
}

func parseSexp(s string, i int) (*sexp, int, error) {
	for i < len(s) && (s[i] == ' ' || s[i] == '\n' || s[i] == '\t' || s[i] == '\r') {
		i++
	}
	if i >= len(s) {
		return nil, i, fmt.Errorf("unexpected end")
	}
	if s[i] == '(' {
		n := &sexp{list: []*sexp{}}
		i++
		for {
			for i < len(s) && (s[i] == ' ' || s[i] == '\n' || s[i] == '\t' || s[i] == '\r') {
				i++
			}
			if i >= len(s) {
				return nil, i, fmt.Errorf("unbalanced")
			}
			if s[i] == ')' {
				return n, i + 1, nil
			}
			c, j, err := parseSexp(s, i)
			if err != nil {
				return nil, j, err
			}
			n.list = append(n.list, c)
			i = j
		}
	}
	j := i
	if s[i] == '"' {
		j++
		for j < len(s) && s[j] != '"' {
			j++
		}
		j++
	} else {
		for j < len(s) && s[j] != ' ' && s[j] != ')' && s[j] != '(' && s[j] != '\n' {
			j++
		}
	}
	return &sexp{atom: s[i:j]}, j, nil
}

// smtInt parses an integer value printed by the solver.
func smtInt(v string) (*big.Int, bool) {
	v = strings.TrimSpace(v)
	neg := false
	if strings.HasPrefix(v, "(- ") && strings.HasSuffix(v, ")") {
		neg = true
		v = strings.TrimSpace(v[3 : len(v)-1])
	}
	var n big.Int
	switch {
	case strings.HasPrefix(v, "#x"):
		if _, ok := n.SetString(v[2:], 16); !ok {
			return nil, false
		}
	case strings.HasPrefix(v, "#b"):
		if _, ok := n.SetString(v[2:], 2); !ok {
			return nil, false
		}
	default:
		if _, ok := n.SetString(v, 10); !ok {
			return nil, false
		}
	}
	if neg {
		n.Neg(&n)
	}
	return &n, true
}

type replayGen struct {
	ob    *Obligation
	fn    *ssa.Function
	c     *Ctx
	pkg   *types.Package
	imports map[string]string // path -> name
	setup []string
	why   string
	pins  []string
}

func (g *replayGen) qual(p *types.Package) string {
	if p == g.pkg {
		return ""
	}
	g.imports[p.Path()] = p.Name()
	return p.Name()
}

func (g *replayGen) typeStr(t types.Type) string {
	return types.TypeString(t, g.qual)
}

func (g *replayGen) intLit(v *big.Int, t types.Type) string {
	// interpret bit-vector values of signed types as two's complement
	if g.c.Mode == ArithBV && !isUnsigned(t) {
		w := intWidth(t)
		if v.Bit(w-1) == 1 {
			v = new(big.Int).Sub(v, pow2(w))
		}
	}
	return fmt.Sprintf("%s(%s)", g.typeStr(t), v.String())
}

func goStringLit(bs []byte) string {
	var b strings.Builder
	b.WriteString("\"")
	for _, c := range bs {
		if c >= 0x20 && c < 0x7f && c != '"' && c != '\\' {
			b.WriteByte(c)
		} else {
			fmt.Fprintf(&b, "\\x%02x", c)
		}
	}
	b.WriteString("\"")
	return b.String()
}

// valueExpr builds a Go expression for the model value of term v of type t.
func (g *replayGen) valueExpr(v Term, t types.Type, depth int) (string, bool) {
	c := g.c
	get := func(terms ...string) (map[string]string, bool) {
		// every value obtained so far is pinned, so that all inputs come from one model
		m, err := getValues(g.ob, terms, g.pins)
		if err != nil {
			g.why = err.Error()
			return nil, false
		}
		for _, t := range terms {
			if v, ok := m[t]; ok {
				g.pins = append(g.pins, fmt.Sprintf("(= %s %s)", t, v))
			}
		}
		return m, true
	}
	if depth > 2 {
		return "", false
	}
	if isTimeTime(t) {
		m, ok := get(fmt.Sprintf("(t.ns %s)", v.S))
		if !ok {
			return "", false
		}
		n, ok := smtInt(m[fmt.Sprintf("(t.ns %s)", v.S)])
		if !ok || !n.IsInt64() {
			return "", false
		}
		g.imports["time"] = "time"
		return fmt.Sprintf("time.Unix(0, %d)", n.Int64()), true
	}
	switch u := t.Underlying().(type) {
	case *types.Basic:
		switch {
		case u.Info()&types.IsInteger != 0:
			m, ok := get(v.S)
			if !ok {
				return "", false
			}
			n, ok := smtInt(m[v.S])
			if !ok {
				return "", false
			}
			return g.intLit(n, t), true
		case u.Info()&types.IsBoolean != 0:
			m, ok := get(v.S)
			if !ok {
				return "", false
			}
			return m[v.S], m[v.S] == "true" || m[v.S] == "false"
		case u.Info()&types.IsString != 0:
			lt := fmt.Sprintf("(str.len %s)", v.S)
			m, ok := get(lt)
			if !ok {
				return "", false
			}
			n, ok := smtInt(m[lt])
			if !ok || !n.IsInt64() || n.Int64() > 4096 {
				g.why = "string too long to concretise"
				return "", false
			}
			var terms []string
			for i := int64(0); i < n.Int64(); i++ {
				terms = append(terms, fmt.Sprintf("(str.at %s %s)", v.S, c.idxLit(i).S))
			}
			pins := []string{fmt.Sprintf("(= %s %s)", lt, c.idxLit(n.Int64()).S)}
			vals, err := getValues(g.ob, terms, append(append([]string{}, g.pins...), pins...))
			if err != nil {
				g.why = err.Error()
				return "", false
			}
			bs := make([]byte, n.Int64())
			for i := range bs {
				x, ok := smtInt(vals[terms[i]])
				if !ok {
					return "", false
				}
				bs[i] = byte(x.Int64())
			}
			s := goStringLit(bs)
			if _, isNamed := t.(*types.Named); isNamed {
				s = fmt.Sprintf("%s(%s)", g.typeStr(t), s)
			}
			return s, true
		}
	case *types.Slice:
		eb, ok := u.Elem().Underlying().(*types.Basic)
		if !ok || eb.Kind() != types.Uint8 {
			g.why = "slice parameter with non-byte elements"
			return "", false
		}
		lt := fmt.Sprintf("(s.len %s)", v.S)
		at := fmt.Sprintf("(s.arr %s)", v.S)
		ot := fmt.Sprintf("(s.off %s)", v.S)
		m, ok := get(lt, at, ot)
		if !ok {
			return "", false
		}
		n, ok := smtInt(m[lt])
		if !ok || !n.IsInt64() || n.Int64() > 65536 {
			g.why = "slice too long to concretise"
			return "", false
		}
		arr, _ := smtInt(m[at])
		if arr != nil && arr.Sign() == 0 && n.Sign() == 0 {
			return fmt.Sprintf("%s(nil)", g.typeStr(t)), true
		}
		k := c.keyElem(u.Elem())
		h := c.heapGet(&State{heaps: map[string]Term{}}, k)
		var terms []string
		for i := int64(0); i < n.Int64(); i++ {
			terms = append(terms, Select(Select(h, Term{at, SRef}, ""), Term{fmt.Sprintf("(%s %s %s)", addOp(c), ot, c.idxLit(i).S), c.idxSort()}, "").S)
		}
		pins := []string{fmt.Sprintf("(= %s %s)", lt, m[lt]), fmt.Sprintf("(= %s %s)", at, m[at]), fmt.Sprintf("(= %s %s)", ot, m[ot])}
		vals, err := getValues(g.ob, terms, append(append([]string{}, g.pins...), pins...))
		if err != nil {
			g.why = err.Error()
			return "", false
		}
		var parts []string
		for i := range terms {
			x, ok := smtInt(vals[terms[i]])
			if !ok {
				return "", false
			}
			parts = append(parts, fmt.Sprintf("0x%02x", x.Int64()&0xff))
		}
		return fmt.Sprintf("%s{%s}", g.typeStr(t), strings.Join(parts, ", ")), true
	case *types.Pointer:
		el := u.Elem()
		if isTimeTime(el) {
			return "", false
		}
		switch eu := el.Underlying().(type) {
		case *types.Struct:
			var fields []string
			for i := 0; i < eu.NumFields(); i++ {
				f := eu.Field(i)
				if _, op := opaqueNamed(f.Type()); op {
					continue
				}
				if f.Pkg() != nil && f.Pkg() != g.pkg && !f.Exported() {
					g.why = "unexported field of another package"
					return "", false
				}
				k := c.keyField(el, i)
				ft := Select(c.heapGet(&State{heaps: map[string]Term{}}, k), v, c.heapSorts[k].elem)
				switch f.Type().Underlying().(type) {
				case *types.Pointer, *types.Interface, *types.Map, *types.Chan, *types.Signature:
					continue // left nil
				}
				e, ok := g.valueExpr(ft, f.Type(), depth+1)
				if !ok {
					return "", false
				}
				fields = append(fields, fmt.Sprintf("%s: %s", f.Name(), e))
			}
			return fmt.Sprintf("&%s{%s}", g.typeStr(el), strings.Join(fields, ", ")), true
		case *types.Basic:
			k := c.keyBox(el)
			bt := Select(c.heapGet(&State{heaps: map[string]Term{}}, k), v, c.heapSorts[k].elem)
			e, ok := g.valueExpr(bt, el, depth+1)
			if !ok {
				return "", false
			}
			return fmt.Sprintf("func() *%s { x := %s; return &x }()", g.typeStr(el), e), true
		}
	}
	g.why = fmt.Sprintf("parameter of type %s cannot be concretised", t)
	return "", false
}

func addOp(c *Ctx) string {
	if c.Mode == ArithBV {
		return "bvadd"
	}
	return "+"
}

// tryReplay builds and runs the replay test. It returns a record for the replay file.
func tryReplay(o *options, res *checkResult, ob *Obligation, model map[string]string) map[string]any {
	rec := map[string]any{"confirmed": false}
	fn := ob.Fn
	if fn == nil || fn.Pkg == nil || ob.Ct == nil || fn.Parent() != nil {
		rec["skipped"] = "no replay generator for this kind of obligation (not a contract function body)"
		return rec
	}
	g := &replayGen{ob: ob, fn: fn, c: ob.Ctx, pkg: fn.Pkg.Pkg, imports: map[string]string{"testing": "testing", "fmt": "fmt", "math/big": "big"}}
	var args []string
	var names []string
	for _, p := range fn.Params {
		e, ok := g.valueExpr(Term{"p." + sanitizeSym(p.Name()), g.c.sortOf(p.Type())}, p.Type(), 0)
		if !ok {
			if g.why == "" {
				g.why = fmt.Sprintf("parameter %s of type %s", p.Name(), p.Type())
			}
			rec["skipped"] = "model not concretisable: " + g.why
			return rec
		}
		n := "a_" + sanitizeGo(p.Name())
		names = append(names, n)
		args = append(args, fmt.Sprintf("\t%s := %s", n, e))
	}
	// the call
	call := ""
	callArgs := names
	if fn.Signature.Recv() != nil {
		call = fmt.Sprintf("%s.%s(%s)", names[0], fn.Name(), strings.Join(names[1:], ", "))
	} else {
		call = fmt.Sprintf("%s(%s)", fn.Name(), strings.Join(callArgs, ", "))
	}
	nres := fn.Signature.Results().Len()
	var rnames []string
	for i := 0; i < nres; i++ {
		rnames = append(rnames, fmt.Sprintf("r%d", i))
	}
	// which clauses to evaluate
	var clauses []*Clause
	expectPanic := false
	switch ob.Kind {
	case "post":
		if ob.Clause != nil {
			clauses = []*Clause{ob.Clause}
		}
	case "idx", "slice", "div0", "nil", "assert-type", "make-neg":
		expectPanic = true
	default:
		clauses = ob.Ct.Ensures
	}
	tw := &twin{g: g, fn: fn, params: map[string]string{}, results: rnames}
	for i, p := range fn.Params {
		tw.params[p.Name()] = names[i]
	}
	var checks []string
	for _, cl := range clauses {
		code, err := tw.boolExpr(cl.Expr)
		if err != nil {
			rec["skipped"] = "contract clause has no executable form: " + err.Error()
			return rec
		}
		checks = append(checks, fmt.Sprintf("\tif !(%s) {\n\t\tfmt.Println(\"GOVC-REPLAY: contract clause violated: %s\")\n\t\tviolated = true\n\t}", code, strings.ReplaceAll(cl.Text, "\"", "'")))
	}
	var b strings.Builder
	fmt.Fprintf(&b, "package %s\n\nimport (\n", g.pkg.Name())
	for path, name := range g.imports {
		if filepath.Base(path) == name {
			fmt.Fprintf(&b, "\t%q\n", path)
		} else {
			fmt.Fprintf(&b, "\t%s %q\n", name, path)
		}
	}
	b.WriteString(")\n\n")
	b.WriteString(twinPrelude)
	b.WriteString("func TestGovcReplay(t *testing.T) {\n")
	for _, a := range args {
		b.WriteString(a + "\n")
	}
	for _, s := range tw.olds {
		b.WriteString("\t" + s + "\n")
	}
	b.WriteString("\tviolated := false\n\tpanicked := false\n")
	if nres > 0 {
		for i := 0; i < nres; i++ {
			fmt.Fprintf(&b, "\tvar r%d %s\n", i, g.typeStr(fn.Signature.Results().At(i).Type()))
		}
		fmt.Fprintf(&b, "\tfunc() {\n\t\tdefer func() {\n\t\t\tif e := recover(); e != nil {\n\t\t\t\tpanicked = true\n\t\t\t\tfmt.Println(\"GOVC-REPLAY: panic:\", e)\n\t\t\t}\n\t\t}()\n\t\t%s = %s\n\t}()\n", strings.Join(rnames, ", "), call)
	} else {
		fmt.Fprintf(&b, "\tfunc() {\n\t\tdefer func() {\n\t\t\tif e := recover(); e != nil {\n\t\t\t\tpanicked = true\n\t\t\t\tfmt.Println(\"GOVC-REPLAY: panic:\", e)\n\t\t\t}\n\t\t}()\n\t\t%s\n\t}()\n", call)
	}
	for i := range rnames {
		fmt.Fprintf(&b, "\t_ = r%d\n", i)
	}
	b.WriteString("\tif !panicked {\n")
	for _, cdk := range checks {
		b.WriteString(strings.ReplaceAll(cdk, "\n", "\n\t") + "\n")
	}
	b.WriteString("\t}\n")
	if expectPanic {
		b.WriteString("\tif panicked {\n\t\tfmt.Println(\"GOVC-REPLAY: CONFIRMED (the real function panics on the counterexample)\")\n\t} else {\n\t\tfmt.Println(\"GOVC-REPLAY: NOT-CONFIRMED\")\n\t}\n")
	} else {
		b.WriteString("\tif violated || panicked {\n\t\tfmt.Println(\"GOVC-REPLAY: CONFIRMED (the real function violates its contract on the counterexample)\")\n\t} else {\n\t\tfmt.Println(\"GOVC-REPLAY: NOT-CONFIRMED\")\n\t}\n")
	}
	b.WriteString("}\n")
	src := b.String()
	rec["test_source"] = src
	var argDesc []string
	for _, a := range args {
		argDesc = append(argDesc, strings.TrimSpace(a))
	}
	rec["inputs"] = argDesc
	// run
	dir, err := os.MkdirTemp("", "govc-replay-")
	if err != nil {
		rec["skipped"] = err.Error()
		return rec
	}
	defer os.RemoveAll(dir)
	testFile := filepath.Join(dir, "zz_govc_replay_test.go")
	_ = os.WriteFile(testFile, []byte(src), 0o644)
	pkgDir := filepath.Dir(res.world.Fset.Position(fn.Pos()).Filename)
	ov := map[string]any{"Replace": map[string]string{filepath.Join(pkgDir, "zz_govc_replay_test.go"): testFile}}
	ovData, _ := json.Marshal(ov)
	ovFile := filepath.Join(dir, "overlay.json")
	_ = os.WriteFile(ovFile, ovData, 0o644)
	rel, _ := filepath.Rel(o.repo, pkgDir)
	cmd := exec.Command("go", "test", "-overlay", ovFile, "-vet=off", "-count=1", "-timeout", "60s", "-run", "^TestGovcReplay$", "-v", "./"+rel+"/")
	cmd.Dir = o.repo
	cmd.Env = append(os.Environ(), "GOFLAGS=-mod=mod", "GOPROXY=off", "GOSUMDB=off", "GOTOOLCHAIN=local")
	done := make(chan struct{})
	var out []byte
	go func() { out, _ = cmd.CombinedOutput(); close(done) }()
	select {
	case <-done:
	case <-time.After(240 * time.Second):
		_ = cmd.Process.Kill()
		rec["skipped"] = "replay test timed out"
		return rec
	}
	rec["command"] = "cd " + o.repo + " && go test -overlay <overlay injecting zz_govc_replay_test.go> -vet=off -count=1 -timeout 60s -run ^TestGovcReplay$ ./" + rel + "/"
	rec["output"] = truncate(string(out), 4000)
	if strings.Contains(string(out), "GOVC-REPLAY: CONFIRMED") {
		rec["confirmed"] = true
	}
	return rec
}

func sanitizeGo(s string) string {
	var b strings.Builder
	for _, r := range s {
		if r >= 'a' && r <= 'z' || r >= 'A' && r <= 'Z' || r >= '0' && r <= '9' || r == '_' {
			b.WriteRune(r)
		} else {
			b.WriteRune('_')
		}
	}
	return b.String()
}

const twinPrelude = `func gvBi(x int64) *big.Int   { return big.NewInt(x) }
func gvBu(x uint64) *big.Int  { return new(big.Int).SetUint64(x) }
func gvB2i(b bool) *big.Int   { if b { return big.NewInt(1) }; return big.NewInt(0) }
func gvTrunc(x *big.Int, w uint, signed bool) *big.Int {
	m := new(big.Int).Lsh(big.NewInt(1), w)
	r := new(big.Int).Mod(x, m)
	if signed && r.Bit(int(w-1)) == 1 {
		r.Sub(r, m)
	}
	return r
}
func gvIdx(x *big.Int) int { return int(x.Int64()) }

var _ = fmt.Sprint
var _ = gvBi
var _ = gvBu
var _ = gvB2i
var _ = gvTrunc
var _ = gvIdx

`

// twin translates contract expressions into Go (integers as *big.Int).
type twin struct {
	g       *replayGen
	fn      *ssa.Function
	params  map[string]string
	results []string
	bound   map[string]string
	olds    []string
	inOld   bool
	specVars map[string]tval
}

type tval struct {
	code string
	kind string // int bool string bytes raw
	ty   types.Type
}

func (t *twin) boolExpr(e ast.Expr) (string, error) {
	v, err := t.expr(e)
	if err != nil {
		return "", err
	}
	if v.kind != "bool" {
		return "", fmt.Errorf("not boolean")
	}
	return v.code, nil
}

func (t *twin) fromGo(code string, ty types.Type) tval {
	switch {
	case isInteger(ty):
		if isUnsigned(ty) {
			return tval{fmt.Sprintf("gvBu(uint64(%s))", code), "int", ty}
		}
		return tval{fmt.Sprintf("gvBi(int64(%s))", code), "int", ty}
	case isBool(ty):
		return tval{code, "bool", ty}
	case isString(ty):
		return tval{fmt.Sprintf("string(%s)", code), "string", ty}
	case isByteSlice(ty):
		return tval{code, "bytes", ty}
	}
	return tval{code, "raw", ty}
}

func (t *twin) expr(e ast.Expr) (tval, error) {
	switch x := e.(type) {
	case *ast.ParenExpr:
		return t.expr(x.X)
	case *ast.BasicLit:
		switch x.Kind {
		case token.INT:
			return tval{fmt.Sprintf("func() *big.Int { v, _ := new(big.Int).SetString(%q, 0); return v }()", x.Value), "int", nil}, nil
		case token.CHAR:
			r, _, _, err := strconv.UnquoteChar(x.Value[1:len(x.Value)-1], '\'')
			if err != nil {
				return tval{}, err
			}
			return tval{fmt.Sprintf("gvBi(%d)", r), "int", nil}, nil
		case token.STRING:
			return tval{x.Value, "string", nil}, nil
		}
	case *ast.Ident:
		switch x.Name {
		case "true", "false":
			return tval{x.Name, "bool", nil}, nil
		case "nil":
			return tval{"nil", "raw", nil}, nil
		case "result":
			if len(t.results) == 1 {
				return t.fromGo("r0", t.fn.Signature.Results().At(0).Type()), nil
			}
		}
		if v, ok := t.specVars[x.Name]; ok {
			return v, nil
		}
		if c, ok := t.bound[x.Name]; ok {
			return tval{c, "int", nil}, nil
		}
		if strings.HasPrefix(x.Name, "result") {
			if i, err := strconv.Atoi(x.Name[6:]); err == nil && i < len(t.results) {
				return t.fromGo(t.results[i], t.fn.Signature.Results().At(i).Type()), nil
			}
		}
		for i := 0; i < t.fn.Signature.Results().Len(); i++ {
			if t.fn.Signature.Results().At(i).Name() == x.Name {
				return t.fromGo(t.results[i], t.fn.Signature.Results().At(i).Type()), nil
			}
		}
		for _, p := range t.fn.Params {
			if p.Name() == x.Name {
				return t.fromGo(t.params[x.Name], p.Type()), nil
			}
		}
		// package-level constant
		if obj := t.g.pkg.Scope().Lookup(x.Name); obj != nil {
			if k, ok := obj.(*types.Const); ok {
				return t.fromGo(x.Name, k.Type()), nil
			}
		}
		return tval{}, fmt.Errorf("identifier %s", x.Name)
	case *ast.UnaryExpr:
		v, err := t.expr(x.X)
		if err != nil {
			return tval{}, err
		}
		switch x.Op {
		case token.NOT:
			return tval{"!(" + v.code + ")", "bool", nil}, nil
		case token.SUB:
			return tval{"new(big.Int).Neg(" + v.code + ")", "int", nil}, nil
		}
	case *ast.BinaryExpr:
		a, err := t.expr(x.X)
		if err != nil {
			return tval{}, err
		}
		b, err := t.expr(x.Y)
		if err != nil {
			return tval{}, err
		}
		switch x.Op {
		case token.LAND:
			return tval{"(" + a.code + " && " + b.code + ")", "bool", nil}, nil
		case token.LOR:
			return tval{"(" + a.code + " || " + b.code + ")", "bool", nil}, nil
		}
		if a.kind == "int" && b.kind == "int" {
			switch x.Op {
			case token.ADD:
				return tval{fmt.Sprintf("new(big.Int).Add(%s, %s)", a.code, b.code), "int", nil}, nil
			case token.SUB:
				return tval{fmt.Sprintf("new(big.Int).Sub(%s, %s)", a.code, b.code), "int", nil}, nil
			case token.MUL:
				return tval{fmt.Sprintf("new(big.Int).Mul(%s, %s)", a.code, b.code), "int", nil}, nil
			case token.SHL:
				return tval{fmt.Sprintf("new(big.Int).Lsh(%s, uint(%s.Uint64()))", a.code, b.code), "int", nil}, nil
			case token.SHR:
				return tval{fmt.Sprintf("new(big.Int).Rsh(%s, uint(%s.Uint64()))", a.code, b.code), "int", nil}, nil
			case token.AND:
				return tval{fmt.Sprintf("new(big.Int).And(%s, %s)", a.code, b.code), "int", nil}, nil
			case token.OR:
				return tval{fmt.Sprintf("new(big.Int).Or(%s, %s)", a.code, b.code), "int", nil}, nil
			case token.EQL:
				return tval{fmt.Sprintf("(%s.Cmp(%s) == 0)", a.code, b.code), "bool", nil}, nil
			case token.NEQ:
				return tval{fmt.Sprintf("(%s.Cmp(%s) != 0)", a.code, b.code), "bool", nil}, nil
			case token.LSS:
				return tval{fmt.Sprintf("(%s.Cmp(%s) < 0)", a.code, b.code), "bool", nil}, nil
			case token.LEQ:
				return tval{fmt.Sprintf("(%s.Cmp(%s) <= 0)", a.code, b.code), "bool", nil}, nil
			case token.GTR:
				return tval{fmt.Sprintf("(%s.Cmp(%s) > 0)", a.code, b.code), "bool", nil}, nil
			case token.GEQ:
				return tval{fmt.Sprintf("(%s.Cmp(%s) >= 0)", a.code, b.code), "bool", nil}, nil
			}
		}
		if a.kind == b.kind || a.kind == "raw" || b.kind == "raw" {
			switch x.Op {
			case token.EQL:
				return tval{fmt.Sprintf("(%s == %s)", a.code, b.code), "bool", nil}, nil
			case token.NEQ:
				return tval{fmt.Sprintf("(%s != %s)", a.code, b.code), "bool", nil}, nil
			}
		}
		return tval{}, fmt.Errorf("operator %s on %s/%s", x.Op, a.kind, b.kind)
	case *ast.StarExpr:
		v, err := t.expr(x.X)
		if err != nil {
			return tval{}, err
		}
		if v.ty != nil {
			if pt, ok := v.ty.Underlying().(*types.Pointer); ok {
				return t.fromGo("(*"+v.code+")", pt.Elem()), nil
			}
		}
		return tval{}, fmt.Errorf("dereference")
	case *ast.SelectorExpr:
		v, err := t.expr(x.X)
		if err != nil {
			return tval{}, err
		}
		if v.ty == nil {
			return tval{}, fmt.Errorf("selector on untyped value")
		}
		if isTimeTime(v.ty) && x.Sel.Name == "ns" {
			return tval{fmt.Sprintf("gvBi(%s.UnixNano())", v.code), "int", nil}, nil
		}
		obj, _, _ := types.LookupFieldOrMethod(v.ty, true, t.g.pkg, x.Sel.Name)
		f, ok := obj.(*types.Var)
		if !ok {
			return tval{}, fmt.Errorf("field %s", x.Sel.Name)
		}
		return t.fromGo(v.code+"."+x.Sel.Name, f.Type()), nil
	case *ast.IndexExpr:
		v, err := t.expr(x.X)
		if err != nil {
			return tval{}, err
		}
		i, err := t.expr(x.Index)
		if err != nil {
			return tval{}, err
		}
		if (v.kind == "bytes" || v.kind == "string") && i.kind == "int" {
			return tval{fmt.Sprintf("gvBu(uint64(%s[gvIdx(%s)]))", v.code, i.code), "int", types.Typ[types.Uint8]}, nil
		}
		return tval{}, fmt.Errorf("index")
	case *ast.CallExpr:
		return t.call(x)
	}
	return tval{}, fmt.Errorf("expression %T", e)
}

func (t *twin) call(x *ast.CallExpr) (tval, error) {
	// conversions
	if id, ok := x.Fun.(*ast.Ident); ok && len(x.Args) == 1 {
		if tn, ok := types.Universe.Lookup(id.Name).(*types.TypeName); ok && isInteger(tn.Type()) {
			v, err := t.expr(x.Args[0])
			if err != nil {
				return tval{}, err
			}
			if v.kind != "int" {
				return tval{}, fmt.Errorf("conversion of %s", v.kind)
			}
			if intWidth(tn.Type()) >= 64 {
				return tval{v.code, "int", tn.Type()}, nil
			}
			return tval{fmt.Sprintf("gvTrunc(%s, %d, %v)", v.code, intWidth(tn.Type()), !isUnsigned(tn.Type())), "int", tn.Type()}, nil
		}
		if obj := t.g.pkg.Scope().Lookup(id.Name); obj != nil {
			if tn, ok := obj.(*types.TypeName); ok && isInteger(tn.Type()) {
				return t.expr(x.Args[0])
			}
		}
	}
	// pure method call on a parameter: v.Method()
	if se, ok := x.Fun.(*ast.SelectorExpr); ok {
		recv, err := t.expr(se.X)
		if err != nil {
			return tval{}, err
		}
		if recv.ty == nil {
			return tval{}, fmt.Errorf("method call on untyped value")
		}
		obj, _, _ := types.LookupFieldOrMethod(recv.ty, true, t.g.pkg, se.Sel.Name)
		m, ok := obj.(*types.Func)
		if !ok || len(x.Args) != 0 {
			return tval{}, fmt.Errorf("method %s", se.Sel.Name)
		}
		// recv.code wraps the Go value for ints: recover the raw Go expression for parameters
		if id, ok := se.X.(*ast.Ident); ok {
			if raw, ok := t.params[id.Name]; ok {
				return t.fromGo(fmt.Sprintf("%s.%s()", raw, m.Name()), m.Type().(*types.Signature).Results().At(0).Type()), nil
			}
		}
		return tval{}, fmt.Errorf("method call receiver")
	}
	id, ok := x.Fun.(*ast.Ident)
	if !ok {
		return tval{}, fmt.Errorf("call")
	}
	args := func() ([]tval, error) {
		var out []tval
		for _, a := range x.Args {
			v, err := t.expr(a)
			if err != nil {
				return nil, err
			}
			out = append(out, v)
		}
		return out, nil
	}
	switch id.Name {
	case "old":
		v, err := t.expr(x.Args[0])
		if err != nil {
			return tval{}, err
		}
		n := fmt.Sprintf("old%d", len(t.olds))
		switch v.kind {
		case "bytes":
			t.olds = append(t.olds, fmt.Sprintf("%s := append([]byte(nil), %s...)", n, v.code))
		default:
			t.olds = append(t.olds, fmt.Sprintf("%s := %s", n, v.code))
		}
		t.olds = append(t.olds, "_ = "+n)
		return tval{n, v.kind, v.ty}, nil
	case "len":
		v, err := t.expr(x.Args[0])
		if err != nil {
			return tval{}, err
		}
		return tval{fmt.Sprintf("gvBi(int64(len(%s)))", v.code), "int", nil}, nil
	case "implies":
		a, err := args()
		if err != nil {
			return tval{}, err
		}
		return tval{fmt.Sprintf("(!(%s) || (%s))", a[0].code, a[1].code), "bool", nil}, nil
	case "iff":
		a, err := args()
		if err != nil {
			return tval{}, err
		}
		return tval{fmt.Sprintf("((%s) == (%s))", a[0].code, a[1].code), "bool", nil}, nil
	case "ite":
		a, err := args()
		if err != nil {
			return tval{}, err
		}
		if a[1].kind == "int" {
			return tval{fmt.Sprintf("func() *big.Int { if %s { return %s }; return %s }()", a[0].code, a[1].code, a[2].code), "int", nil}, nil
		}
		if a[1].kind == "bool" {
			return tval{fmt.Sprintf("func() bool { if %s { return %s }; return %s }()", a[0].code, a[1].code, a[2].code), "bool", nil}, nil
		}
	case "b2i":
		a, err := args()
		if err != nil {
			return tval{}, err
		}
		return tval{"gvB2i(" + a[0].code + ")", "int", nil}, nil
	case "tdiv", "tmod":
		a, err := args()
		if err != nil {
			return tval{}, err
		}
		op := "Quo"
		if id.Name == "tmod" {
			op = "Rem"
		}
		return tval{fmt.Sprintf("new(big.Int).%s(%s, %s)", op, a[0].code, a[1].code), "int", nil}, nil
	case "min", "max":
		a, err := args()
		if err != nil {
			return tval{}, err
		}
		cmp := "<"
		if id.Name == "max" {
			cmp = ">"
		}
		return tval{fmt.Sprintf("func() *big.Int { if %s.Cmp(%s) %s 0 { return %s }; return %s }()", a[0].code, a[1].code, cmp, a[0].code, a[1].code), "int", nil}, nil
	case "forall", "exists":
		if len(x.Args) != 4 {
			return tval{}, fmt.Errorf("quantifier over a type has no executable form")
		}
		v, ok := x.Args[0].(*ast.Ident)
		if !ok {
			return tval{}, fmt.Errorf("quantifier")
		}
		lo, err := t.expr(x.Args[1])
		if err != nil {
			return tval{}, err
		}
		hi, err := t.expr(x.Args[2])
		if err != nil {
			return tval{}, err
		}
		if t.bound == nil {
			t.bound = map[string]string{}
		}
		bn := fmt.Sprintf("q_%s%d", v.Name, len(t.bound))
		t.bound[v.Name] = bn
		body, err := t.expr(x.Args[3])
		delete(t.bound, v.Name)
		if err != nil {
			return tval{}, err
		}
		if id.Name == "forall" {
			return tval{fmt.Sprintf("func() bool { for %s := new(big.Int).Set(%s); %s.Cmp(%s) < 0; %s = new(big.Int).Add(%s, big.NewInt(1)) { if !(%s) { return false } }; return true }()", bn, lo.code, bn, hi.code, bn, bn, body.code), "bool", nil}, nil
		}
		return tval{fmt.Sprintf("func() bool { for %s := new(big.Int).Set(%s); %s.Cmp(%s) < 0; %s = new(big.Int).Add(%s, big.NewInt(1)) { if %s { return true } }; return false }()", bn, lo.code, bn, hi.code, bn, bn, body.code), "bool", nil}, nil
	}
	// spec macro
	if sf, ok := t.g.c.W.Specs[id.Name]; ok && sf.Expr != nil && !sf.Rec {
		a, err := args()
		if err != nil {
			return tval{}, err
		}
		saved := t.bound
		nb := map[string]string{}
		for k, v := range saved {
			nb[k] = v
		}
		// bind spec parameters as local variables of an immediately-invoked function
		var decls []string
		kinds := map[string]tval{}
		for i, p := range sf.Params {
			vn := fmt.Sprintf("sp_%s_%s", sf.Name, p.Name)
			decls = append(decls, fmt.Sprintf("%s := %s; _ = %s", vn, a[i].code, vn))
			kinds[p.Name] = tval{vn, a[i].kind, a[i].ty}
		}
		sub := &twin{g: t.g, fn: t.fn, params: t.params, results: t.results, bound: nb}
		sub.specVars = kinds
		body, err := sub.expr(sf.Expr)
		if err != nil {
			return tval{}, err
		}
		rt := "*big.Int"
		switch body.kind {
		case "bool":
			rt = "bool"
		case "string":
			rt = "string"
		case "bytes":
			rt = "[]byte"
		}
		return tval{fmt.Sprintf("func() %s { %s; return %s }()", rt, strings.Join(decls, "; "), body.code), body.kind, nil}, nil
	}
	// local defs (non-recursive, over entry values)
	if t.g.ob.Ct != nil {
		for _, d := range t.g.ob.Ct.Defs {
			if d.Name == id.Name && !d.Rec && len(d.Params) == 0 {
				v, err := t.expr(d.Expr)
				if err != nil {
					return tval{}, err
				}
				n := fmt.Sprintf("def_%s", d.Name)
				found := false
				for _, s := range t.olds {
					if strings.HasPrefix(s, n+" :=") {
						found = true
					}
				}
				if !found {
					t.olds = append(t.olds, fmt.Sprintf("%s := %s", n, v.code), "_ = "+n)
				}
				return tval{n, v.kind, v.ty}, nil
			}
		}
	}
	return tval{}, fmt.Errorf("function %s has no executable form", id.Name)
}
