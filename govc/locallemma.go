package main

// Function-local lemmas about local (recursive) definitions, proved by induction and then
// made available as quantified facts to the function's other obligations.

import (
	"fmt"
	"go/ast"
	"go/types"
	"strings"
)

type LocalLemma struct {
	Name   string
	Params []specParam
	Var    string   // induction variable ("" = direct proof)
	From   ast.Expr // lower bound of the induction
	Text   string
	Expr   ast.Expr
}

// proveLocalLemmas emits base/step obligations for each lemma and then asserts it.
func (ex *Exec) proveLocalLemmas(env *Env) {
	c := ex.c
	if ex.ct == nil {
		return
	}
	for _, ll := range ex.ct.LocalLemmas {
		where := fmt.Sprintf("%s:%d (lemma %s)", relFile(ex.ct.File), ex.ct.Line, ll.Name)
		// skolem constants for the parameters
		le := *env
		le.vars = map[string]Val{}
		for k, v := range env.vars {
			le.vars[k] = v
		}
		le.where = where
		var consts []Term
		var tys []types.Type
		for _, p := range ll.Params {
			t := le.typeFromString(p.Type)
			x := c.freshConst("lm."+ll.Name+"."+p.Name, c.sortOf(t))
			if p.Type != "int" {
				c.assume(c.rangeFact(x, t))
			}
			le.vars[p.Name] = Val{T: x, Ty: t}
			consts = append(consts, x)
			tys = append(tys, t)
		}
		pos := ex.pos(ex.fn.Pos())
		if ll.Var == "" {
			g := le.eval(ll.Expr).T
			c.obligeNamed("lemma."+ll.Name, "lemma", pos, "lemma "+ll.Name+": "+ll.Text, tTrue, g)
		} else {
			xv, ok := le.vars[ll.Var]
			if !ok {
				panic(unsupported("%s: induction variable %s is not a parameter", where, ll.Var))
			}
			from := le.asIdx(le.eval(ll.From))
			// base: P[x := from]
			be := le.with(ll.Var, Val{T: from, Ty: xv.Ty})
			c.obligeNamed("lemma."+ll.Name+".base", "lemma", pos, "lemma "+ll.Name+" (base case): "+ll.Text, tTrue, be.eval(ll.Expr).T)
			// step: x >= from && P ==> P[x := x+1]   (successor form, matching the recursive definitions' axioms)
			next := le.with(ll.Var, Val{T: ex.idxAdd(xv.T, c.idxLit(1)), Ty: xv.Ty})
			hyp := le.eval(ll.Expr).T
			ge := T(SBool, "(>= %s %s)", xv.T.S, from.S)
			c.obligeNamed("lemma."+ll.Name+".step", "lemma", pos, "lemma "+ll.Name+" (induction step): "+ll.Text, And(ge, hyp), next.eval(ll.Expr).T)
		}
		// make the lemma available: forall params. x >= from ==> P
		qe := *env
		qe.vars = map[string]Val{}
		for k, v := range env.vars {
			qe.vars[k] = v
		}
		qe.where = where
		var binds []string
		c.fresh++
		for i, p := range ll.Params {
			bn := fmt.Sprintf("%s!l%d", p.Name, c.fresh)
			s := c.sortOf(tys[i])
			binds = append(binds, fmt.Sprintf("(%s %s)", bn, s))
			qe.vars[p.Name] = Val{T: Term{bn, s}, Ty: tys[i]}
		}
		body := qe.eval(ll.Expr).T
		if ll.Var != "" {
			from := qe.asIdx(qe.eval(ll.From))
			body = Implies(T(SBool, "(>= %s %s)", qe.vars[ll.Var].T.S, from.S), body)
		}
		c.emit("(assert (forall (%s) %s)) ; lemma %s", strings.Join(binds, " "), body.S, ll.Name)
	}
}
