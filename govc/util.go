package main

import (
	"go/types"

	"golang.org/x/tools/go/ssa"
)

// hasBoundVar reports whether an SMT term mentions a quantifier-bound variable.
// Bound variables are named name!q<N>, name!d<N>, name!l<N>, name!pa<N>, name!ax, k!a<N>, k!c<N>;
// fresh constants are named hint!<N> (digits only).
func hasBoundVar(s string) bool {
	for i := 0; i+1 < len(s); i++ {
		if s[i] == '!' {
			c := s[i+1]
			if c >= 'a' && c <= 'z' {
				return true
			}
		}
	}
	return false
}

// elemAt reads element i of slice s from element heap h through an uninterpreted accessor,
// so that quantified facts over slice elements have the bare index as trigger argument
// (E-matching on the arithmetic term off+i is unreliable). The defining axiom is emitted per
// heap version (quantified over the slice and the index only, never over array-sorted variables).
func (c *Ctx) elemAt(key string, h Term, s Term, i Term) Term {
	info := c.heapSorts[key]
	name := "at." + sanitizeSym(key)
	if hasBoundVar(h.S) {
		panic(unsupported("element heap term with bound variable"))
	}
	// Heap versions introduced by define-fun are macros (store/ite terms) and cannot appear in patterns.
	// They get a declared constant that only serves as a tag naming the version inside the accessor; the
	// accessor's meaning comes from the axiom below, whose right-hand side uses the real heap term
	// (no equation between array terms is asserted: extensional array equalities are very expensive).
	tag := h
	if !c.declKeys["const:"+h.S] {
		if a, ok := c.heapAlias[h.S]; ok {
			tag = a
		} else {
			tag = c.freshConst("Ha."+key, info.sort)
			c.heapAlias[h.S] = tag
		}
	}
	c.decl("fn:"+name, "(declare-fun "+name+" ("+string(info.sort)+" Slice "+string(c.idxSort())+") "+string(info.elem)+")")
	axKey := "ax:" + name + ":" + tag.S
	if !c.declKeys[axKey] {
		c.declKeys[axKey] = true
		add := "(+ (s.off s) i)"
		if c.Mode == ArithBV {
			add = "(bvadd (s.off s) i)"
		}
		c.emit("(assert (forall ((s Slice) (i %s)) (! (= (%s %s s i) (select (select %s (s.arr s)) %s)) :pattern ((%s %s s i)))))", c.idxSort(), name, tag.S, h.S, add, name, tag.S)
	}
	return Term{"(" + name + " " + tag.S + " " + s.S + " " + i.S + ")", info.elem}
}

func (ex *Exec) declOfBytes() {
	c := ex.c
	idx := c.idxSort()
	c.decl("fn:str.ofbytes", "(declare-fun str.ofbytes ("+string(ArraySort(idx, c.intSort(8, false)))+" "+string(idx)+" "+string(idx)+") Str)")
	if c.Mode == ArithInt {
		c.decl("ax:ofbytes.len", "(assert (forall ((a (Array Int Int)) (o Int) (n Int)) (! (=> (>= n 0) (= (str.len (str.ofbytes a o n)) n)) :pattern ((str.ofbytes a o n)))))")
		c.decl("ax:ofbytes.at", "(assert (forall ((a (Array Int Int)) (o Int) (n Int) (i Int)) (! (=> (and (<= 0 i) (< i n)) (= (str.at (str.ofbytes a o n) i) (select a (+ o i)))) :pattern ((str.at (str.ofbytes a o n) i)))))")
	}
}

func calleeOriginName(f *ssa.Function) string {
	if o := f.Origin(); o != nil {
		return o.String()
	}
	return f.String()
}

func isCancelFunc(t types.Type) bool {
	n, ok := t.(*types.Named)
	if !ok || n.Obj().Pkg() == nil {
		return false
	}
	return n.Obj().Pkg().Path() == "context" && (n.Obj().Name() == "CancelFunc" || n.Obj().Name() == "CancelCauseFunc")
}

// fieldHoldsCancelFunc: every store into the struct field (in the loaded module packages) stores the
// cancel function returned by context.WithCancel / WithTimeout / WithDeadline.
func (w *World) fieldHoldsCancelFunc(st types.Type, field int) bool {
	key := typeKey(st) + "#" + itoa(field)
	if w.cancelFields == nil {
		w.cancelFields = map[string]bool{}
	} else if v, ok := w.cancelFields[key]; ok {
		return v
	}
	found := 0
	ok := true
	for path, sp := range w.SSAPkgs {
		if len(path) < len(modulePath) || path[:len(modulePath)] != modulePath {
			continue
		}
		for _, f := range allFunctions(sp) {
			for _, b := range f.Blocks {
				for _, in := range b.Instrs {
					s, isStore := in.(*ssa.Store)
					if !isStore {
						continue
					}
					fa, isFA := s.Addr.(*ssa.FieldAddr)
					if !isFA || fa.Field != field {
						continue
					}
					pt, isPtr := fa.X.Type().Underlying().(*types.Pointer)
					if !isPtr || !types.Identical(pt.Elem(), st) {
						continue
					}
					found++
					sv := s.Val
					if ct, isCT := sv.(*ssa.ChangeType); isCT {
						sv = ct.X // context.CancelFunc converted to func()
					}
					ex, isEx := sv.(*ssa.Extract)
					if !isEx || ex.Index != 1 {
						ok = false
						continue
					}
					call, isCall := ex.Tuple.(*ssa.Call)
					if !isCall || call.Call.StaticCallee() == nil {
						ok = false
						continue
					}
					switch call.Call.StaticCallee().String() {
					case "context.WithCancel", "context.WithTimeout", "context.WithDeadline", "context.WithCancelCause":
					default:
						ok = false
					}
				}
			}
		}
	}
	res := ok && found > 0
	w.cancelFields[key] = res
	return res
}

// isCancelCall: the called function value is a context cancel function.
func (w *World) isCancelCall(v ssa.Value) bool {
	if isCancelFunc(v.Type()) {
		return true
	}
	ld, ok := v.(*ssa.UnOp)
	if !ok {
		return false
	}
	fa, ok := ld.X.(*ssa.FieldAddr)
	if !ok {
		return false
	}
	pt, ok := fa.X.Type().Underlying().(*types.Pointer)
	if !ok {
		return false
	}
	if _, isStruct := pt.Elem().Underlying().(*types.Struct); !isStruct {
		return false
	}
	return w.fieldHoldsCancelFunc(pt.Elem(), fa.Field)
}

// isLogFunc: a method named Log with the logger.Writer signature (level, format, args...).
func isLogFunc(f *ssa.Function) bool {
	if f == nil || f.Name() != "Log" || f.Signature.Recv() == nil {
		return false
	}
	sig := f.Signature
	return sig.Params().Len() == 3 && sig.Variadic() && sig.Results().Len() == 0
}
