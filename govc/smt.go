package main

// SMT term layer and solver portfolio.

import (
	"bytes"
	"context"
	"fmt"
	"os"
	"os/exec"
	"path/filepath"
	"strings"
	"sync"
	"time"
)

// Sort is the SMT-LIB text of a sort.
type Sort string

const (
	SBool Sort = "Bool"
	SInt  Sort = "Int"
	SStr  Sort = "Str"
	SRef  Sort = "Int" // references (pointers, maps, chans, funcs, interfaces)
	SSl   Sort = "Slice"
	SReal Sort = "Real"
)

// Term is an SMT term with its sort.
type Term struct {
	S    string
	Sort Sort
}

func T(sort Sort, format string, args ...any) Term {
	return Term{S: fmt.Sprintf(format, args...), Sort: sort}
}

var (
	tTrue  = Term{"true", SBool}
	tFalse = Term{"false", SBool}
)

func And(ts ...Term) Term {
	var parts []string
	for _, t := range ts {
		if t.S == "true" {
			continue
		}
		if t.S == "false" {
			return tFalse
		}
		parts = append(parts, t.S)
	}
	switch len(parts) {
	case 0:
		return tTrue
	case 1:
		return Term{parts[0], SBool}
	}
	return Term{"(and " + strings.Join(parts, " ") + ")", SBool}
}

func Or(ts ...Term) Term {
	var parts []string
	for _, t := range ts {
		if t.S == "false" {
			continue
		}
		if t.S == "true" {
			return tTrue
		}
		parts = append(parts, t.S)
	}
	switch len(parts) {
	case 0:
		return tFalse
	case 1:
		return Term{parts[0], SBool}
	}
	return Term{"(or " + strings.Join(parts, " ") + ")", SBool}
}

func Not(t Term) Term {
	switch t.S {
	case "true":
		return tFalse
	case "false":
		return tTrue
	}
	if strings.HasPrefix(t.S, "(not ") {
		return Term{t.S[5 : len(t.S)-1], SBool}
	}
	return Term{"(not " + t.S + ")", SBool}
}

func Implies(a, b Term) Term {
	if a.S == "true" {
		return b
	}
	if a.S == "false" || b.S == "true" {
		return tTrue
	}
	return Term{"(=> " + a.S + " " + b.S + ")", SBool}
}

func Eq(a, b Term) Term {
	if a.S == b.S {
		return tTrue
	}
	return Term{"(= " + a.S + " " + b.S + ")", SBool}
}

func Ite(c, a, b Term) Term {
	if c.S == "true" {
		return a
	}
	if c.S == "false" {
		return b
	}
	if a.S == b.S {
		return a
	}
	return Term{"(ite " + c.S + " " + a.S + " " + b.S + ")", a.Sort}
}

func Select(arr Term, idx Term, elem Sort) Term {
	return Term{"(select " + arr.S + " " + idx.S + ")", elem}
}

func Store(arr Term, idx Term, v Term) Term {
	return Term{"(store " + arr.S + " " + idx.S + " " + v.S + ")", arr.Sort}
}

func ArraySort(idx, elem Sort) Sort { return Sort("(Array " + string(idx) + " " + string(elem) + ")") }

func IntLit(v string) Term {
	if strings.HasPrefix(v, "-") {
		return Term{"(- " + v[1:] + ")", SInt}
	}
	return Term{v, SInt}
}

// ---------------------------------------------------------------------------
// solver portfolio

type SolverResult struct {
	Status string // unsat | sat | unknown | timeout | error
	Solver string
	Time   float64
	Output string
}

type solverSpec struct {
	name  string
	bin   string
	args  func(file string, timeoutMs int) []string
	hdr   string
	delay time.Duration // start delay inside the staged portfolio
}

func z3Args(extra ...string) func(f string, ms int) []string {
	return func(f string, ms int) []string {
		// -t is a soft per-query limit (ms); -T a hard wall-clock limit (s) for runaway processes; memory in MB
		a := []string{fmt.Sprintf("-t:%d", ms), fmt.Sprintf("-T:%d", ms/1000+5), "-memory:6000"}
		a = append(a, extra...)
		return append(a, "-smt2", f)
	}
}

// The portfolio is staged: most obligations close in well under a second with the first configuration.
// An obligation that does not is typically one on which the default search diverges while a different
// random seed or arithmetic solver closes it at once, so further configurations are started after a delay.
var solverSpecs = []solverSpec{
	{"z3-new", "z3-new", z3Args(), "", 0},
	{"z3-new.seed7", "z3-new", z3Args("smt.random_seed=7"), "", 1500 * time.Millisecond},
	{"z3-new.arith2", "z3-new", z3Args("smt.arith.solver=2"), "", 1500 * time.Millisecond},
	{"z3", "z3", z3Args(), "", 2 * time.Second},
	{"cvc5", "cvc5", func(f string, ms int) []string {
		return []string{"--lang=smt2", fmt.Sprintf("--tlimit=%d", ms), "--incremental", f}
	}, "(set-logic ALL)\n", 3 * time.Second},
	{"z3-new.seed13", "z3-new", z3Args("smt.random_seed=13", "smt.arith.solver=6"), "", 5 * time.Second},
}

func solverAvailable(bin string) bool {
	_, err := exec.LookPath(bin)
	return err == nil
}

// runQuery races the solvers on the query text. wantModel adds (get-model).
func runQuery(dir, name, query string, timeout time.Duration, wantModel bool, only []string) SolverResult {
	ctx, cancel := context.WithTimeout(context.Background(), timeout+2*time.Second)
	defer cancel()
	// cvc5 reserves the str.* namespace of the strings theory even when it is not used
	query = strings.ReplaceAll(query, "str.", "gstr.")
	resCh := make(chan SolverResult, len(solverSpecs)+1)
	n := 0
	var wg sync.WaitGroup
	for _, sp := range solverSpecs {
		if len(only) > 0 {
			ok := false
			for _, o := range only {
				if o == sp.name {
					ok = true
				}
			}
			if !ok {
				continue
			}
		}
		if !solverAvailable(sp.bin) {
			continue
		}
		n++
		wg.Add(1)
		// staged portfolio: the first solver starts at once, the others only if it has not answered
		// after a short delay (most obligations close in well under a second; this keeps the
		// number of concurrent solver processes close to the number of obligations in flight)
		delay := sp.delay
		if n == 1 {
			delay = 0
		}
		go func(sp solverSpec, delay time.Duration) {
			defer wg.Done()
			if delay > 0 {
				select {
				case <-time.After(delay):
				case <-ctx.Done():
					resCh <- SolverResult{Status: "unknown", Solver: sp.name, Output: "not started"}
					return
				}
			}
			file := filepath.Join(dir, sanitizeFile(name)+"."+sp.name+".smt2")
			var b strings.Builder
			b.WriteString("(set-option :produce-models true)\n")
			b.WriteString(sp.hdr)
			b.WriteString(query)
			b.WriteString("(check-sat)\n")
			if wantModel {
				b.WriteString("(get-model)\n")
			}
			if err := os.WriteFile(file, []byte(b.String()), 0o644); err != nil {
				resCh <- SolverResult{Status: "error", Solver: sp.name, Output: err.Error()}
				return
			}
			start := time.Now()
			cmd := exec.CommandContext(ctx, sp.bin, sp.args(file, int(timeout/time.Millisecond))...)
			var out bytes.Buffer
			cmd.Stdout = &out
			cmd.Stderr = &out
			_ = cmd.Run()
			el := time.Since(start).Seconds()
			o := out.String()
			first := ""
			for _, ln := range strings.Split(o, "\n") {
				ln = strings.TrimSpace(ln)
				if ln == "" || strings.HasPrefix(ln, "WARNING") || strings.HasPrefix(ln, "(warning") {
					continue
				}
				first = ln
				break
			}
			st := "unknown"
			switch {
			case first == "unsat":
				st = "unsat"
			case first == "sat":
				st = "sat"
			case first == "unknown":
				st = "unknown"
			case strings.Contains(first, "timeout") || strings.Contains(o, "interrupted by timeout") || ctx.Err() != nil:
				st = "timeout"
			case strings.Contains(o, "error"):
				st = "error"
			}
			resCh <- SolverResult{Status: st, Solver: sp.name, Time: el, Output: o}
		}(sp, delay)
	}
	go func() { wg.Wait(); close(resCh) }()
	var last SolverResult
	last.Status = "unknown"
	var errOut []string
	for r := range resCh {
		if r.Status == "unsat" || r.Status == "sat" {
			cancel()
			return r
		}
		if r.Status == "error" {
			errOut = append(errOut, r.Solver+": "+firstLines(r.Output, 3))
		}
		// report the most informative non-answer: timeout > unknown > error
		rank := map[string]int{"timeout": 3, "unknown": 2, "error": 1}
		if last.Solver == "" || rank[r.Status] > rank[last.Status] {
			last = r
		}
	}
	if len(errOut) == n && n > 0 {
		last.Status = "error"
		last.Output = strings.Join(errOut, "\n")
	}
	return last
}

func firstLines(s string, n int) string {
	ls := strings.Split(strings.TrimSpace(s), "\n")
	if len(ls) > n {
		ls = ls[:n]
	}
	return strings.Join(ls, " | ")
}

func sanitizeFile(s string) string {
	var b strings.Builder
	for _, r := range s {
		switch {
		case r >= 'a' && r <= 'z', r >= 'A' && r <= 'Z', r >= '0' && r <= '9', r == '.', r == '-', r == '_', r == '#':
			b.WriteRune(r)
		default:
			b.WriteRune('_')
		}
	}
	out := b.String()
	if len(out) > 180 {
		out = out[:180]
	}
	return out
}

func sanitizeSym(s string) string {
	var b strings.Builder
	for _, r := range s {
		switch {
		case r >= 'a' && r <= 'z', r >= 'A' && r <= 'Z', r >= '0' && r <= '9', r == '_', r == '.', r == '$', r == '!', r == '@':
			b.WriteRune(r)
		default:
			b.WriteRune('_')
		}
	}
	return b.String()
}
