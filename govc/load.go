package main

// Loading /repo with go/packages and building naive-form SSA.

import (
	"fmt"
	"go/ast"
	"go/parser"
	"go/token"
	"go/types"
	"os"
	"path/filepath"
	"sort"
	"strings"

	"golang.org/x/tools/go/packages"
	"golang.org/x/tools/go/ssa"
	"golang.org/x/tools/go/ssa/ssautil"
)

const modulePath = "github.com/bluenviron/mediamtx"

type World struct {
	RepoDir  string
	VerifDir string
	Fset     *token.FileSet
	Pkgs     map[string]*packages.Package
	Prog     *ssa.Program
	SSAPkgs  map[string]*ssa.Package

	Contracts map[string]*Contract // key: pkgpath + "::" + funcKey
	Stubs     map[string]*Contract // key: ssa function String() form
	Specs     map[string]*SpecFunc
	SpecList  []*SpecFunc
	Axioms    []*Axiom
	FieldRanges map[string]FieldRange
	MapSums     map[string]MapSum // map type (types.Type.String()) -> ghost weighted sum declaration
	FieldInvs   []*FieldInv

	Rewrites []string
	LoadSecs float64

	modCache  map[*ssa.Function]*modSet
	implCache map[string][]*ssa.Function
	cancelFields map[string]bool
}

// findContractFiles lists zz_verif_contracts.go files under the repo.
func findContractFiles(repo string) []string {
	var out []string
	_ = filepath.Walk(filepath.Join(repo, "internal"), func(p string, info os.FileInfo, err error) error {
		if err == nil && !info.IsDir() && info.Name() == "zz_verif_contracts.go" {
			out = append(out, p)
		}
		return nil
	})
	sort.Strings(out)
	return out
}

func rewriteSplitSeq(fset *token.FileSet, f *ast.File, w *World) {
	ast.Inspect(f, func(n ast.Node) bool {
		rs, ok := n.(*ast.RangeStmt)
		if !ok {
			return true
		}
		call, ok := rs.X.(*ast.CallExpr)
		if !ok {
			return true
		}
		sel, ok := call.Fun.(*ast.SelectorExpr)
		if !ok {
			return true
		}
		pk, ok := sel.X.(*ast.Ident)
		if !ok || (pk.Name != "strings" && pk.Name != "bytes") {
			return true
		}
		var repl string
		switch sel.Sel.Name {
		case "SplitSeq":
			repl = "Split"
		case "FieldsSeq":
			repl = "Fields"
		default:
			return true
		}
		if rs.Key != nil && rs.Value == nil {
			sel.Sel = &ast.Ident{NamePos: sel.Sel.NamePos, Name: repl}
			rs.Value = rs.Key
			rs.Key = &ast.Ident{NamePos: rs.Key.Pos(), Name: "_"}
			w.Rewrites = append(w.Rewrites, fmt.Sprintf("%s: range %s.%s -> range %s.%s (documented equivalent)", fset.Position(rs.Pos()), pk.Name, sel.Sel.Name+"Seq"[0:0], pk.Name, repl))
		}
		return true
	})
}

// loadWorld loads the given package patterns (relative to the repo) and builds SSA.
func loadWorld(repo, verif string, patterns []string, overlay map[string][]byte) (*World, error) {
	w := &World{RepoDir: repo, VerifDir: verif, Fset: token.NewFileSet(), Pkgs: map[string]*packages.Package{},
		SSAPkgs: map[string]*ssa.Package{}, Contracts: map[string]*Contract{}, Stubs: map[string]*Contract{},
		Specs: map[string]*SpecFunc{}, modCache: map[*ssa.Function]*modSet{}, FieldRanges: map[string]FieldRange{}, MapSums: map[string]MapSum{}}
	cfg := &packages.Config{
		Mode:       packages.LoadAllSyntax,
		Dir:        repo,
		Fset:       w.Fset,
		BuildFlags: []string{"-tags=verif"},
		Overlay:    overlay,
		Env:        append(os.Environ(), "PATH=/opt/veriftools/go1.26.8/bin:"+os.Getenv("PATH"), "GOFLAGS=-mod=mod", "GOPROXY=off", "GOSUMDB=off", "GOTOOLCHAIN=local"),
		ParseFile: func(fset *token.FileSet, filename string, src []byte) (*ast.File, error) {
			f, err := parser.ParseFile(fset, filename, src, parser.ParseComments|parser.SkipObjectResolution)
			if err != nil {
				return f, err
			}
			if strings.HasPrefix(filename, repo+"/") {
				rewriteSplitSeq(fset, f, w)
			}
			return f, nil
		},
	}
	pkgs, err := packages.Load(cfg, patterns...)
	if err != nil {
		return nil, err
	}
	var errs []string
	packages.Visit(pkgs, nil, func(p *packages.Package) {
		w.Pkgs[p.PkgPath] = p
		if strings.HasPrefix(p.PkgPath, modulePath) {
			for _, e := range p.Errors {
				errs = append(errs, e.Error())
			}
		}
	})
	if len(errs) > 0 {
		return nil, fmt.Errorf("package errors: %s", strings.Join(errs, "; "))
	}
	prog, spkgs := ssautil.AllPackages(pkgs, ssa.NaiveForm|ssa.GlobalDebug)
	w.Prog = prog
	for _, sp := range spkgs {
		if sp != nil {
			sp.Build()
		}
	}
	for _, sp := range prog.AllPackages() {
		w.SSAPkgs[sp.Pkg.Path()] = sp
	}
	// dependencies inside the module are built on demand
	return w, nil
}

func (w *World) ssaPkg(path string) *ssa.Package {
	sp := w.SSAPkgs[path]
	if sp != nil {
		sp.Build()
	}
	return sp
}

// funcKey is the contract key of an SSA function inside its package:
//   name | Recv.name | name$N | Recv.name$N
func funcKey(f *ssa.Function) string {
	if f.Parent() != nil {
		// closure: Parent$N
		name := f.Name() // e.g. FindPathConf$1
		if i := strings.Index(name, "$"); i >= 0 {
			return funcKey(rootParent(f)) + name[strings.Index(name, "$"):]
		}
		return name
	}
	if recv := f.Signature.Recv(); recv != nil {
		t := recv.Type()
		if p, ok := t.(*types.Pointer); ok {
			t = p.Elem()
		}
		if n, ok := t.(*types.Named); ok {
			return n.Obj().Name() + "." + f.Name()
		}
	}
	return f.Name()
}

func rootParent(f *ssa.Function) *ssa.Function {
	for f.Parent() != nil {
		f = f.Parent()
	}
	return f
}

func funcPkgPath(f *ssa.Function) string {
	r := rootParent(f)
	if r.Pkg != nil {
		return r.Pkg.Pkg.Path()
	}
	if r.Object() != nil && r.Object().Pkg() != nil {
		return r.Object().Pkg().Path()
	}
	return ""
}

// allFunctions returns every function (incl. methods and closures) of an SSA package.
func allFunctions(sp *ssa.Package) []*ssa.Function {
	var out []*ssa.Function
	seen := map[*ssa.Function]bool{}
	var add func(f *ssa.Function)
	add = func(f *ssa.Function) {
		if f == nil || seen[f] {
			return
		}
		seen[f] = true
		out = append(out, f)
		for _, a := range f.AnonFuncs {
			add(a)
		}
	}
	for _, m := range sp.Members {
		switch m := m.(type) {
		case *ssa.Function:
			add(m)
		case *ssa.Type:
			for _, t := range []types.Type{m.Type(), types.NewPointer(m.Type())} {
				ms := sp.Prog.MethodSets.MethodSet(t)
				for i := 0; i < ms.Len(); i++ {
					fn := sp.Prog.MethodValue(ms.At(i))
					if fn != nil && fn.Pkg == sp && fn.Synthetic == "" {
						add(fn)
					}
				}
			}
		}
	}
	sort.Slice(out, func(i, j int) bool { return out[i].Pos() < out[j].Pos() })
	return out
}

func (w *World) findFunc(pkgPath, key string) *ssa.Function {
	sp := w.ssaPkg(pkgPath)
	if sp == nil {
		return nil
	}
	for _, f := range allFunctions(sp) {
		if funcKey(f) == key {
			return f
		}
	}
	return nil
}

func shortPkg(path string) string {
	p := strings.TrimPrefix(path, modulePath+"/internal/")
	p = strings.TrimPrefix(p, modulePath+"/")
	return strings.ReplaceAll(p, "/", ".")
}

func relPos(p token.Position) string {
	f := strings.TrimPrefix(p.Filename, "/repo/")
	return fmt.Sprintf("%s:%d", f, p.Line)
}


// MapSum declares a ghost "sum of weights of the values of a map" for one map type:  mapsum <name> <weight spec> <map type>
// The weight is a spec function of the value alone (assumed non-negative by an axiom in the spec file). The engine relates the
// sum before and after every insertion and deletion on maps of that type (ground facts); contracts read it as mapsum(m).
type MapSum struct {
	Name   string
	Weight string
	File   string
	Line   int
}
