package main

// Cone-of-influence slicing of the SMT script of an obligation: only the declarations, definitions and
// assumptions connected (through shared symbols) to the goal are sent to the solver. Dropping hypotheses
// can only make an obligation harder to prove, never easier, so slicing is sound; it keeps the queries
// small when a function havocs large parts of the heap.

import (
	"os"
	"strings"
)

type scriptLine struct {
	text    string
	kind    byte // 'd' declaration/definition of a symbol, 'a' assertion, 'o' other (datatypes, sorts)
	name    string
	syms    []string
	quant   bool
}

type sliceIndex struct {
	decls  []scriptLine
	script []scriptLine
	known  map[string]bool // declared / defined symbols
}

func tokens(s string) []string {
	var out []string
	i := 0
	for i < len(s) {
		c := s[i]
		if c == '(' || c == ')' || c == ' ' || c == '\t' || c == '\n' {
			i++
			continue
		}
		if c == ';' {
			break // comment until end of line
		}
		if c == '"' {
			j := i + 1
			for j < len(s) && s[j] != '"' {
				j++
			}
			i = j + 1
			continue
		}
		j := i
		for j < len(s) && s[j] != '(' && s[j] != ')' && s[j] != ' ' && s[j] != '\t' && s[j] != '\n' {
			j++
		}
		out = append(out, s[i:j])
		i = j
	}
	return out
}

func classify(text string) scriptLine {
	l := scriptLine{text: text, kind: 'o'}
	toks := tokens(text)
	if len(toks) == 0 {
		return l
	}
	switch toks[0] {
	case "declare-const", "declare-fun", "define-fun", "define-fun-rec":
		l.kind = 'd'
		if len(toks) > 1 {
			l.name = toks[1]
			l.syms = toks[2:]
		}
	case "assert":
		l.kind = 'a'
		l.syms = toks[1:]
		l.quant = strings.Contains(text, "(forall ") || strings.Contains(text, "(exists ")
	default:
		l.kind = 'o' // declare-sort, declare-datatypes: always kept
	}
	return l
}

func (c *Ctx) sliceIdx() *sliceIndex {
	if c.slice != nil && len(c.slice.decls) == len(c.decls) && len(c.slice.script) == len(c.script) {
		return c.slice
	}
	idx := &sliceIndex{known: map[string]bool{}}
	for _, d := range c.decls {
		l := classify(d)
		if l.kind == 'd' {
			idx.known[l.name] = true
		}
		idx.decls = append(idx.decls, l)
	}
	for _, s := range c.script {
		l := classify(s)
		if l.kind == 'd' {
			idx.known[l.name] = true
		}
		idx.script = append(idx.script, l)
	}
	c.slice = idx
	return idx
}

// hub symbols connect almost everything and carry no information by themselves
func isHub(s string) bool {
	return s == "alloc0" || s == "tdiv" || s == "tmod" || s == "dyntype" || strings.HasPrefix(s, "str.") || strings.HasPrefix(s, "gstr.")
}

// slicedQuery renders the query restricted to the cone of influence of the goal.
func (o *Obligation) slicedQuery() string {
	c := o.Ctx
	if os.Getenv("GOVC_NOSLICE") != "" {
		return o.queryText()
	}
	idx := c.sliceIdx()
	rel := map[string]bool{}
	var work []string
	addSym := func(s string) {
		if idx.known[s] && !rel[s] {
			rel[s] = true
			work = append(work, s)
		}
	}
	for _, t := range tokens(o.Guard.S) {
		addSym(t)
	}
	for _, t := range tokens(o.Goal.S) {
		addSym(t)
	}
	all := make([]*scriptLine, 0, len(idx.decls)+o.ScriptLen)
	for i := range idx.decls {
		all = append(all, &idx.decls[i])
	}
	for i := 0; i < o.ScriptLen && i < len(idx.script); i++ {
		all = append(all, &idx.script[i])
	}
	// symbol -> defining line, symbol -> assertions mentioning it
	def := map[string]*scriptLine{}
	uses := map[string][]*scriptLine{}
	var always []*scriptLine
	for _, l := range all {
		switch l.kind {
		case 'd':
			def[l.name] = l
		case 'a':
			n := 0
			for _, s := range l.syms {
				if idx.known[s] && !isHub(s) {
					uses[s] = append(uses[s], l)
					n++
				}
			}
			if n == 0 {
				always = append(always, l) // theory axioms over hub symbols only
			}
		}
	}
	keep := map[*scriptLine]bool{}
	for _, l := range always {
		keep[l] = true
		for _, t := range l.syms {
			addSym(t)
		}
	}
	for len(work) > 0 {
		s := work[len(work)-1]
		work = work[:len(work)-1]
		if l := def[s]; l != nil && !keep[l] {
			keep[l] = true
			for _, t := range l.syms {
				addSym(t)
			}
		}
		if isHub(s) {
			continue
		}
		for _, l := range uses[s] {
			if keep[l] {
				continue
			}
			keep[l] = true
			for _, t := range l.syms {
				addSym(t)
			}
		}
	}
	var b strings.Builder
	for _, l := range all {
		if l.kind == 'o' || keep[l] {
			b.WriteString(l.text)
			b.WriteByte('\n')
		}
	}
	if o.Cover {
		b.WriteString("(assert " + And(o.Guard, o.Goal).S + ")\n")
	} else {
		b.WriteString("(assert " + And(o.Guard, Not(o.Goal)).S + ")\n")
	}
	return b.String()
}

// groundOnly drops every quantified assertion of a query. What remains is a weaker set of assumptions:
// if it is unsatisfiable, so is the full query.
func groundOnly(q string) string {
	var b strings.Builder
	for _, l := range strings.Split(q, "\n") {
		if strings.HasPrefix(l, "(assert") && (strings.Contains(l, "(forall ") || strings.Contains(l, "(exists ")) {
			continue
		}
		b.WriteString(l)
		b.WriteByte('\n')
	}
	return b.String()
}
