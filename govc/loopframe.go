package main

// Frame conditions for loop havoc: a heap array havoc'd at a loop head keeps the cells of every
// pre-existing object that no instruction of the loop body can write. The written objects are
// determined from the addresses of the stores in the body when those are loop-invariant values.

import (
	"fmt"
	"go/token"
	"go/types"
	"sort"

	"golang.org/x/tools/go/ssa"
)

type loopWrites struct {
	refs    map[string][]Term // key -> written object references (pre-state terms)
	unknown map[string]bool   // key written through a reference that is not loop-invariant
	ownedOnly map[string]bool // key (also) written through locally owned slices (fresh backing arrays only)
}

// invariantValue evaluates an SSA value in the pre-loop state if it cannot change inside the loop.
func (ex *Exec) invariantValue(v ssa.Value, li *loopInfo, pre *State, cells map[*ssa.Alloc]bool, keys map[string]bool, all bool, depth int) (Term, bool) {
	if depth > 6 {
		return Term{}, false
	}
	if in, ok := v.(ssa.Instruction); ok {
		if !li.blocks[in.Block()] {
			if x, ok := ex.vals[v]; ok && x.Loc == nil && x.T.S != "" {
				return x.T, true
			}
			return Term{}, false
		}
	} else {
		// parameters, constants, globals, free variables
		switch v.(type) {
		case *ssa.Parameter, *ssa.Const, *ssa.FreeVar:
			x := ex.val(v)
			if x.Loc == nil && x.T.S != "" {
				return x.T, true
			}
		}
		return Term{}, false
	}
	switch v := v.(type) {
	case *ssa.UnOp:
		if v.Op != token.MUL {
			return Term{}, false
		}
		switch a := v.X.(type) {
		case *ssa.Alloc:
			if ex.cells[a] && !cells[a] {
				if t, ok := pre.cells[a]; ok {
					return t, true
				}
			}
		case *ssa.FieldAddr:
			if all {
				return Term{}, false
			}
			if !isPlainPointer(a.X) {
				return Term{}, false
			}
			base, ok := ex.invariantValue(a.X, li, pre, cells, keys, all, depth+1)
			if !ok {
				return Term{}, false
			}
			st := a.X.Type().Underlying().(*types.Pointer).Elem()
			if _, isStruct := st.Underlying().(*types.Struct); !isStruct || isTimeTime(st) {
				return Term{}, false
			}
			k := ex.c.keyField(st, a.Field)
			if keys[k] {
				return Term{}, false
			}
			return Select(ex.c.heapGet(pre, k), base, ex.c.heapSorts[k].elem), true
		}
	case *ssa.ChangeType:
		return ex.invariantValue(v.X, li, pre, cells, keys, all, depth+1)
	}
	return Term{}, false
}

// loopWriteSet collects, per heap key, the objects written by the loop body.
func (ex *Exec) loopWriteSet(li *loopInfo, pre *State, cells map[*ssa.Alloc]bool, keys map[string]bool, all bool) *loopWrites {
	c := ex.c
	lw := &loopWrites{refs: map[string][]Term{}, unknown: map[string]bool{}, ownedOnly: map[string]bool{}}
	add := func(key string, v ssa.Value, isSlice bool) {
		t, ok := ex.invariantValue(v, li, pre, cells, keys, all, 0)
		if !ok {
			if isSlice && ex.ownedSliceValue(v) {
				// a slice variable that only ever holds nil, make(...) or append(itself, ...): its backing
				// array was allocated by this function, so no object that existed at entry is written
				lw.ownedOnly[key] = true
				return
			}
			if !isSlice && ex.loopFreshPointer(v, li) {
				// a pointer variable that, inside the loop, only ever holds objects allocated inside the loop
				// (new / &T{} / the result of a callee declared fresh): no object existing before the loop is written
				return
			}
			lw.unknown[key] = true
			return
		}
		if isSlice {
			t = sliceArr(t)
		}
		lw.refs[key] = append(lw.refs[key], t)
	}
	var blocks []*ssa.BasicBlock
	for b := range li.blocks {
		blocks = append(blocks, b)
	}
	sort.Slice(blocks, func(i, j int) bool { return blocks[i].Index < blocks[j].Index })
	for _, b := range blocks {
		for _, in := range b.Instrs {
			switch in := in.(type) {
			case *ssa.Store:
				// walk to the root of the address
				addr := in.Addr
				for {
					switch a := addr.(type) {
					case *ssa.FieldAddr:
						if isPlainPointer(a.X) {
							st := a.X.Type().Underlying().(*types.Pointer).Elem()
							if _, isStruct := st.Underlying().(*types.Struct); isStruct && !isTimeTime(st) {
								add(c.keyField(st, a.Field), a.X, false)
							} else {
								for k := range ex.w.instrMods(c, in, ex).keys {
									lw.unknown[k] = true
								}
							}
							addr = nil
						} else {
							addr = a.X
						}
					case *ssa.IndexAddr:
						switch u := a.X.Type().Underlying().(type) {
						case *types.Slice:
							add(c.keyElem(u.Elem()), a.X, true)
							addr = nil
						case *types.Pointer:
							if isPlainPointer(a.X) {
								add(c.keyElem(u.Elem().Underlying().(*types.Array).Elem()), a.X, false)
								addr = nil
							} else {
								addr = a.X
							}
						default:
							addr = nil
						}
					case *ssa.Alloc:
						if !ex.cells[a] {
							// heap-allocated local: allocated before or inside the loop
							if !li.blocks[a.Block()] {
								if x, ok := ex.vals[a]; ok && x.Loc == nil {
									for k := range ex.w.instrMods(c, in, ex).keys {
										lw.refs[k] = append(lw.refs[k], x.T)
									}
								}
							}
							// allocated inside the loop: a fresh object, not pre-existing
						}
						addr = nil
					case *ssa.Global:
						addr = nil
					default:
						// store through a first-class pointer
						if addr != nil {
							if pt, ok := addr.Type().Underlying().(*types.Pointer); ok {
								m := newModSet()
								addPointee(m, pt.Elem())
								m.register(c)
								for k := range m.keys {
									add(k, addr, false)
								}
							}
						}
						addr = nil
					}
					if addr == nil {
						break
					}
				}
			case *ssa.MapUpdate:
				mt := in.Map.Type().Underlying().(*types.Map)
				for _, k := range []string{c.keyMapHas(mt), c.keyMapVal(mt), c.keyMapLen(mt)} {
					add(k, in.Map, false)
				}
			case *ssa.Next:
				// advancing a map iteration updates the ghost set of produced keys of that map
				if rg, ok := in.Iter.(*ssa.Range); ok && !in.IsString {
					if mt, ok := rg.X.Type().Underlying().(*types.Map); ok {
						add(c.keyMapVisited(mt), rg.X, false)
					}
				}
			case *ssa.Range:
				if mt, ok := in.X.Type().Underlying().(*types.Map); ok {
					add(c.keyMapVisited(mt), in.X, false)
				}
			case *ssa.Call, *ssa.Defer:
				var cc *ssa.CallCommon
				if call, ok := in.(*ssa.Call); ok {
					cc = &call.Call
				} else {
					cc = &in.(*ssa.Defer).Call
				}
				if b, ok := cc.Value.(*ssa.Builtin); ok {
					switch b.Name() {
					case "delete":
						if mt, ok := cc.Args[0].Type().Underlying().(*types.Map); ok {
							for _, k := range []string{c.keyMapHas(mt), c.keyMapVal(mt), c.keyMapLen(mt)} {
								add(k, cc.Args[0], false)
							}
						}
						continue
					case "append":
						// may write the spare capacity of its first argument in place
						sl := cc.Args[0].Type().Underlying().(*types.Slice)
						add(c.keyElem(sl.Elem()), cc.Args[0], true)
						continue
					case "copy":
						sl := cc.Args[0].Type().Underlying().(*types.Slice)
						add(c.keyElem(sl.Elem()), cc.Args[0], true)
						continue
					case "len", "cap", "min", "max", "panic", "print", "println", "ssa:wrapnilchk":
						continue
					}
				}
				for k := range ex.w.instrMods(c, in, ex).keys {
					lw.unknown[k] = true
				}
			}
		}
	}
	return lw
}

// assumeLoopFrame states what the havoc of key preserved.
func (ex *Exec) assumeLoopFrame(lw *loopWrites, key string, pre, post *State) {
	c := ex.c
	if lw.unknown[key] {
		return
	}
	hp := c.heapGet(pre, key)
	hn := c.heapGet(post, key)
	if hp.S == hn.S {
		return
	}
	info := c.heapSorts[key]
	if info.sort == info.elem {
		return // 0-dimensional (globals)
	}
	var conds []string
	if lw.ownedOnly[key] {
		// objects allocated by this function (possibly before the loop) may be written: only entry-time objects are framed
		conds = append(conds, "(< r alloc0)")
	} else {
		conds = append(conds, fmt.Sprintf("(< r %s)", pre.alloc.S))
	}
	for _, t := range lw.refs[key] {
		conds = append(conds, fmt.Sprintf("(distinct r %s)", t.S))
	}
	cond := conds[0]
	if len(conds) > 1 {
		cond = "(and " + joinStr(conds, " ") + ")"
	}
	c.emit("(assert (forall ((r Int)) (! (=> %s (= (select %s r) (select %s r))) :pattern ((select %s r))))) ; loop frame %s", cond, hn.S, hp.S, hn.S, key)
}

func joinStr(xs []string, sep string) string {
	out := ""
	for i, x := range xs {
		if i > 0 {
			out += sep
		}
		out += x
	}
	return out
}

// ownedSliceValue: v is a load of a local slice variable whose every assignment is nil, make(...),
// a composite literal, or append(<the same variable>, ...).
func (ex *Exec) ownedSliceValue(v ssa.Value) bool {
	ld, ok := v.(*ssa.UnOp)
	if !ok || ld.Op != token.MUL {
		return false
	}
	a, ok := ld.X.(*ssa.Alloc)
	if !ok {
		return false
	}
	refs := a.Referrers()
	if refs == nil {
		return false
	}
	for _, r := range *refs {
		switch r := r.(type) {
		case *ssa.UnOp, *ssa.DebugRef:
			continue
		case *ssa.MakeClosure:
			// captured: the closure may only read the variable
			fn := r.Fn.(*ssa.Function)
			for i, b := range r.Bindings {
				if b != a || i >= len(fn.FreeVars) {
					continue
				}
				if frefs := fn.FreeVars[i].Referrers(); frefs != nil {
					for _, fr := range *frefs {
						switch fr.(type) {
						case *ssa.UnOp, *ssa.DebugRef:
						default:
							return false
						}
					}
				}
			}
			continue
		case *ssa.Store:
			if r.Addr != a {
				return false // the address itself is stored somewhere
			}
		default:
			return false
		}
		st := r.(*ssa.Store)
		switch x := st.Val.(type) {
		case *ssa.Const:
			if x.Value != nil {
				return false
			}
		case *ssa.MakeSlice:
		case *ssa.Slice:
			// slicing a fresh array literal ([]T{...}) : new(array)[:]
			if al, ok := x.X.(*ssa.Alloc); !ok || !al.Heap {
				return false
			}
		case *ssa.Call:
			b, ok := x.Call.Value.(*ssa.Builtin)
			if !ok || b.Name() != "append" {
				return false
			}
			src, ok := x.Call.Args[0].(*ssa.UnOp)
			if !ok || src.Op != token.MUL || src.X != a {
				return false
			}
		default:
			return false
		}
	}
	return true
}

// loopFreshPointer: v is a load of a local pointer variable all of whose assignments lie inside the loop and
// store either a fresh allocation or the first result of a call whose contract declares the result fresh.
func (ex *Exec) loopFreshPointer(v ssa.Value, li *loopInfo) bool {
	isFresh := func(x ssa.Value) bool {
		switch x := x.(type) {
		case *ssa.Alloc:
			return x.Heap && li.blocks[x.Block()]
		case *ssa.Extract:
			call, ok := x.Tuple.(*ssa.Call)
			if !ok || x.Index != 0 || !li.blocks[call.Block()] {
				return false
			}
			ct, _ := ex.w.contractFor(call.Call.StaticCallee())
			return ct != nil && ct.Fresh
		case *ssa.Call:
			if !li.blocks[x.Block()] {
				return false
			}
			ct, _ := ex.w.contractFor(x.Call.StaticCallee())
			return ct != nil && ct.Fresh
		}
		return false
	}
	if isFresh(v) {
		return true
	}
	ld, ok := v.(*ssa.UnOp)
	if !ok || ld.Op != token.MUL {
		return false
	}
	a, ok := ld.X.(*ssa.Alloc)
	if !ok {
		return false
	}
	refs := a.Referrers()
	if refs == nil {
		return false
	}
	n := 0
	for _, r := range *refs {
		switch r := r.(type) {
		case *ssa.UnOp, *ssa.DebugRef:
		case *ssa.Store:
			if r.Addr != a || !li.blocks[r.Block()] || !isFresh(r.Val) {
				return false
			}
			n++
		default:
			return false
		}
	}
	return n > 0
}
