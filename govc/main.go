package main

import (
	"go/types"
	"golang.org/x/tools/go/ssa"
	"os/exec"
	"encoding/json"
	"flag"
	"fmt"
	"os"
	"path/filepath"
	"sort"
	"strconv"
	"strings"
	"sync"
	"time"
)

type KnownFinding struct {
	Property   string `json:"property"`
	Obligation string `json:"obligation"`
	What       string `json:"what"`
	Status     string `json:"status"` // open | fixed
	Commit     string `json:"commit,omitempty"`
}

type PropMeta struct {
	NotCovered []string `json:"not_covered"`
	Claim      string   `json:"claim"`
	Engines    []string `json:"engines"` // extra engines: callsites, ...
	Packages   []string `json:"packages"`
	Bounded    []BoundedCheck `json:"bounded"`
	StoreSites []StoreSiteRule `json:"storesites"`
	CloserPairs []CloserPairRule `json:"closerpairs"`
}

// CloserPairRule is a structural check of the "open a pair, defer its closer" idiom: every call of the opener
// (a function of internal/hooks that returns the pair's closer) inside the listed packages must either be followed, in
// the same basic block and with no call in between, by a defer of exactly the returned closer (held in a local that is
// written once and used for nothing else), or store the closer into one of the listed struct fields (pairs managed
// through a field are the business of contracts or are listed as not covered). Any other use is reported.
type CloserPairRule struct {
	Opener string   `json:"opener"`        // e.g. OnRead
	Pkgs   []string `json:"pkgs"`          // package directories scanned
	Fields []string `json:"field_managed"` // "pkgdir:Type.field" sites accepted as field-managed
	MinSites int    `json:"min_sites"`     // vacuity guard: at least this many opener calls must be found
}

// StoreSiteRule is a mechanical side condition of an object-invariant argument: the named field of the named struct
// type is written (assigned, or - for maps - inserted into) only inside the listed functions of its package.
type StoreSiteRule struct {
	Pkg      string   `json:"pkg"`   // package directory relative to the repo
	Type     string   `json:"type"`  // struct type name
	Field    string   `json:"field"` // field name
	InsertIn []string `json:"insert_only_in"`
	AssignIn []string `json:"assign_only_in"`
}

// BoundedCheck is a bounded stand-in (never counted as proved): a Go test kept under /verif that enumerates a
// stated finite input space against the REAL functions of a package, injected with go test -overlay.
type BoundedCheck struct {
	Name  string `json:"name"`
	Pkg   string `json:"pkg"`   // package directory relative to the repo
	File  string `json:"file"`  // test source relative to /verif
	Run   string `json:"run"`   // test name
	Bound string `json:"bound"` // the stated bound
}

type boundedResult struct {
	BoundedCheck
	OK          bool
	Evaluations int
	Output      string
	Secs        float64
}

type options struct {
	prop    string
	tier    string
	repo    string
	verif   string
	only    string
	dump    bool
	overlay string
	timeout time.Duration
	seed    int
	keep    bool
	noEvid  bool
	verbose bool
}

func main() {
	// the go command used by go/packages must be the 1.26 toolchain (the default go is 1.23)
	os.Setenv("PATH", "/opt/veriftools/go1.26.8/bin:"+os.Getenv("PATH"))
	os.Setenv("GOTOOLCHAIN", "local")
	if len(os.Args) < 2 {
		fmt.Fprintln(os.Stderr, "usage: govc check|list|selftest ...")
		os.Exit(2)
	}
	switch os.Args[1] {
	case "check":
		os.Exit(cmdCheck(os.Args[2:]))
	case "selftest":
		os.Exit(cmdSelftest(os.Args[2:]))
	case "replay":
		os.Exit(cmdReplay(os.Args[2:]))
	default:
		fmt.Fprintln(os.Stderr, "unknown command", os.Args[1])
		os.Exit(2)
	}
}

func parseOpts(args []string) *options {
	o := &options{}
	fs := flag.NewFlagSet("check", flag.ExitOnError)
	fs.StringVar(&o.prop, "prop", "", "property id")
	fs.StringVar(&o.tier, "tier", "quick", "quick|thorough")
	fs.StringVar(&o.repo, "repo", "/repo", "repository")
	fs.StringVar(&o.verif, "verif", "/verif", "verif dir")
	fs.StringVar(&o.only, "only", "", "only functions/obligations containing this substring")
	fs.BoolVar(&o.dump, "dump", false, "dump SSA and queries")
	fs.StringVar(&o.overlay, "overlay", "", "JSON file {path: replacement-file} applied as overlay")
	fs.BoolVar(&o.keep, "keep", false, "keep query files")
	fs.BoolVar(&o.noEvid, "no-evidence", false, "do not write evidence / replays")
	fs.BoolVar(&o.verbose, "v", false, "verbose")
	_ = fs.Parse(args)
	if v := os.Getenv("VERIF_TIER"); v != "" && o.tier == "quick" {
		o.tier = v
	}
	if v := os.Getenv("VERIF_SEED"); v != "" {
		o.seed, _ = strconv.Atoi(v)
	}
	o.timeout = 20 * time.Second
	if o.tier == "thorough" {
		o.timeout = 60 * time.Second
	}
	return o
}

type checkResult struct {
	prop      string
	reports   []*FuncReport
	obls      []*Obligation
	failed    []*Obligation
	known     []*Obligation
	errors    []string
	world     *World
	wall      float64
	solveSecs float64
	extra     map[string]any
	bounded   []*boundedResult
}

func readOverlay(path string) (map[string][]byte, error) {
	if path == "" {
		return nil, nil
	}
	data, err := os.ReadFile(path)
	if err != nil {
		return nil, err
	}
	var m map[string]string
	if err := json.Unmarshal(data, &m); err != nil {
		return nil, err
	}
	out := map[string][]byte{}
	for k, v := range m {
		b, err := os.ReadFile(v)
		if err != nil {
			return nil, err
		}
		out[k] = b
	}
	return out, nil
}

func runCheck(o *options, overlay map[string][]byte) (*checkResult, error) {
	start := time.Now()
	res := &checkResult{prop: o.prop, extra: map[string]any{}}
	pkgs, err := contractPackages(o.repo, o.prop)
	if err != nil {
		return nil, err
	}
	meta := loadPropMeta(o.verif, o.prop)
	for _, p := range meta.Packages {
		pkgs = append(pkgs, modulePath+"/"+p)
	}
	if len(pkgs) == 0 {
		return nil, fmt.Errorf("no contracts found for property %q", o.prop)
	}
	t0 := time.Now()
	w, err := loadWorld(o.repo, o.verif, pkgs, overlay)
	if err != nil {
		return nil, err
	}
	w.LoadSecs = time.Since(t0).Seconds()
	res.world = w
	if err := w.loadContracts(); err != nil {
		return nil, err
	}
	for _, eng := range meta.Engines {
		if eng == "reloadmap" {
			if err := w.reloadMapClauses(o, res); err != nil {
				res.errors = append(res.errors, fmt.Sprintf("engine reloadmap: %v", err))
			}
		}
	}
	cts := w.selectContracts(o.prop)
	for _, ct := range cts {
		fn := w.findFunc(ct.PkgPath, ct.Key)
		if fn == nil {
			res.errors = append(res.errors, fmt.Sprintf("%s:%d: function %s not found in %s (contract is stale)", relFile(ct.File), ct.Line, ct.Key, ct.PkgPath))
			continue
		}
		name := shortPkg(ct.PkgPath) + "." + ct.Key
		if o.only != "" && !strings.Contains(name, strings.SplitN(o.only, "#", 2)[0]) {
			continue
		}
		if o.dump {
			fn.WriteTo(os.Stderr)
		}
		rep := w.verifyFunction(fn, ct, ct.Props)
		res.reports = append(res.reports, rep)
		if rep.Err != "" {
			res.errors = append(res.errors, fmt.Sprintf("%s: outside the supported subset: %s", rep.Name, rep.Err))
			continue
		}
		res.obls = append(res.obls, rep.Ctx.obls...)
	}
	for _, eng := range meta.Engines {
		if err := runExtraEngine(eng, w, o, res); err != nil {
			res.errors = append(res.errors, fmt.Sprintf("engine %s: %v", eng, err))
		}
	}
	w.runFieldInvs(o, res)
	w.runLemmas(o, res)
	if o.only == "" {
		for _, r := range meta.StoreSites {
			res.bounded = append(res.bounded, w.checkStoreSites(o, r)...)
		}
		for _, r := range meta.CloserPairs {
			res.bounded = append(res.bounded, w.checkCloserPairs(o, r))
		}
		for _, b := range meta.Bounded {
			res.bounded = append(res.bounded, runBounded(o, b, overlay))
		}
	}
	for _, r := range res.reports {
		if r.Ctx == nil {
			continue
		}
		for fi := range r.Ctx.usedFieldInv {
			if !contains(fi.Props, o.prop) {
				res.errors = append(res.errors, fmt.Sprintf("%s uses field invariant %s.%s which is not proved under property %s", r.Name, fi.Type, fi.Field, o.prop))
			}
		}
	}
	if o.only != "" {
		var f []*Obligation
		for _, ob := range res.obls {
			if strings.Contains(ob.Name, o.only) {
				f = append(f, ob)
			}
		}
		res.obls = f
	}
	// discharge
	qdir, err := os.MkdirTemp("", "govc-q-")
	if err != nil {
		return nil, err
	}
	if !o.keep && !o.dump {
		defer os.RemoveAll(qdir)
	} else {
		fmt.Fprintln(os.Stderr, "queries in", qdir)
	}
	t1 := time.Now()
	solveAll(res.obls, qdir, o.timeout)
	res.solveSecs = time.Since(t1).Seconds()
	// The vacuity guard of a loop body has one cover per path to the loop's latch. The body is vacuous only if NO path
	// reaches the latch: a single path made infeasible by the contract (e.g. a defensive test that the precondition
	// already implies) is dead code under the contract, not a contradiction - it is reported as such.
	{
		reach := map[string]bool{}
		key := func(ob *Obligation) string {
			n := ob.Name
			if i := strings.Index(n, "#cover.latch.L"); i >= 0 {
				rest := n[i+len("#cover.latch.L"):]
				if j := strings.Index(rest, ".e"); j >= 0 {
					return n[:i] + "#L" + rest[:j]
				}
			}
			return ""
		}
		for _, ob := range res.obls {
			if k := key(ob); k != "" && ob.Cover && ob.Result.Status == "sat" {
				reach[k] = true
			}
		}
		for _, ob := range res.obls {
			if k := key(ob); k != "" && ob.Cover && ob.Result.Status == "unsat" && reach[k] {
				ob.Result.Status = "dead-code"
				ob.DeadCode = true
			}
		}
	}
	for _, ob := range res.obls {
		if !oblOK(ob) {
			res.failed = append(res.failed, ob)
		}
	}
	res.wall = time.Since(start).Seconds()
	return res, nil
}

func oblOK(ob *Obligation) bool {
	if ob.Cover {
		return ob.Result.Status != "unsat" && ob.Result.Status != "error"
	}
	return ob.Result.Status == "unsat"
}

func solveAll(obls []*Obligation, qdir string, timeout time.Duration) {
	for _, ob := range obls {
		ob.Ctx.sliceIdx() // build the slicing index sequentially (it is shared by the workers)
	}
	sem := make(chan struct{}, 12)
	var wg sync.WaitGroup
	for _, ob := range obls {
		wg.Add(1)
		go func(ob *Obligation) {
			defer wg.Done()
			sem <- struct{}{}
			defer func() { <-sem }()
			q := ob.slicedQuery()
			if ob.Cover {
				// cover checks only need one solver; unknown is acceptable, unsat is vacuity.
				// The quantifier-free part of all assumptions (unsliced) is decided first, it is cheap: unsat there is a
				// definite contradiction. When it is satisfiable the full query gets a short budget: unsat = vacuity,
				// sat = reachable, undecided (the usual outcome with quantified assumptions) = the ground answer stands.
				rg0 := runQuery(qdir, ob.Name+".ground", groundOnly(ob.queryText()), timeout/2, false, []string{"z3-new"})
				switch rg0.Status {
				case "unsat":
					ob.Result = rg0
				default:
					short := timeout / 6
					if short < 2*time.Second {
						short = 2 * time.Second
					}
					ob.Result = runQuery(qdir, ob.Name, q, short, false, []string{"z3-new"})
					if ob.Result.Status != "sat" && ob.Result.Status != "unsat" {
						if rg0.Status == "sat" {
							ob.Result.Status = "sat"
							ob.Result.Solver += "(ground)"
						}
						ob.Result.Time += rg0.Time
					}
				}
				if ob.Result.Status == "unsat" && ob.BaseLen > 0 {
					// The vacuity guard of a call asks whether the callee's assumed postconditions contradict what
					// is known at the call site. If the site is already unreachable *before* they are assumed, the
					// contract is not the cause: the statement is dead code in the function itself (e.g. a default
					// branch after an exhaustive switch) and no assumption about the callee is exercised there.
					base := *ob
					base.ScriptLen = ob.BaseLen
					rb := runQuery(qdir, ob.Name+".base", base.slicedQuery(), timeout/2, false, []string{"z3-new"})
					if rb.Status != "unsat" && rb.Status != "sat" {
						rg := runQuery(qdir, ob.Name+".base.ground", groundOnly(base.queryText()), timeout/2, false, []string{"z3-new"})
						if rg.Status == "unsat" {
							rb = rg
						}
					}
					if rb.Status == "unsat" {
						ob.Result.Status = "dead-code"
						ob.Result.Time += rb.Time
						ob.DeadCode = true
					}
				}
				return
			}
			ob.Result = runQuery(qdir, ob.Name, q, timeout, false, nil)
			if ob.Result.Status == "sat" {
				// fetch a model from the solver that answered
				r2 := runQuery(qdir, ob.Name+".model", q, timeout, true, []string{ob.Result.Solver})
				if r2.Status == "sat" {
					ob.Result = r2
				}
			}
		}(ob)
	}
	wg.Wait()
	// Obligations that timed out are retried with little parallelism and a longer limit: a timeout under
	// machine load must not turn into an alarm (every claimed obligation closes in ~1 s on an idle machine).
	var retry []*Obligation
	for _, ob := range obls {
		if !ob.Cover && ob.Result.Status == "timeout" {
			retry = append(retry, ob)
		}
	}
	if len(retry) == 0 {
		return
	}
	long := 6 * timeout
	if long > 180*time.Second {
		long = 180 * time.Second
	}
	sem2 := make(chan struct{}, 3)
	var wg2 sync.WaitGroup
	for _, ob := range retry {
		wg2.Add(1)
		go func(ob *Obligation) {
			defer wg2.Done()
			sem2 <- struct{}{}
			defer func() { <-sem2 }()
			first := ob.Result
			r := runQuery(qdir, ob.Name+".retry", ob.slicedQuery(), long, false, nil)
			r.Time += first.Time
			ob.Result = r
			ob.Retried = true
		}(ob)
	}
	wg2.Wait()
}

func loadPropMeta(verif, prop string) PropMeta {
	var all map[string]PropMeta
	data, err := os.ReadFile(filepath.Join(verif, "props.json"))
	if err != nil {
		return PropMeta{}
	}
	if err := json.Unmarshal(data, &all); err != nil {
		fmt.Fprintln(os.Stderr, "props.json:", err)
		return PropMeta{}
	}
	return all[prop]
}

func loadKnown(verif string) []KnownFinding {
	var f struct {
		Findings []KnownFinding `json:"findings"`
	}
	data, err := os.ReadFile(filepath.Join(verif, "known_findings.json"))
	if err != nil {
		return nil
	}
	_ = json.Unmarshal(data, &f)
	return f.Findings
}

func cmdCheck(args []string) int {
	o := parseOpts(args)
	if o.prop == "" {
		fmt.Fprintln(os.Stderr, "-prop required")
		return 2
	}
	overlay, err := readOverlay(o.overlay)
	if err != nil {
		fmt.Fprintln(os.Stderr, err)
		return 2
	}
	res, err := runCheck(o, overlay)
	if err != nil {
		fmt.Fprintln(os.Stderr, "govc:", err)
		// a tree that no longer loads cannot be checked: report as engine error
		fmt.Printf("ERROR property=%s %v\n", o.prop, err)
		return 2
	}
	if o.tier == "thorough" && o.only == "" && len(overlay) == 0 {
		// thorough tier: besides the longer solver budget, the property's must-fail corpus is run - every recorded
		// property-breaking edit of /repo (applied through the loader's overlay, nothing is written) has to make
		// some obligation of this check fail. A miss does not mean the property is violated; it is reported and
		// recorded in the evidence as a weakness of the check.
		ms, _ := loadMutants(o.verif)
		run, detected := 0, 0
		var missed []string
		for _, m := range ms {
			if m.Property != o.prop || strings.HasPrefix(m.File, "verif:") {
				continue
			}
			ov, err := applyMutant(o.repo, m)
			if err != nil {
				missed = append(missed, m.Name+" (does not apply: "+err.Error()+")")
				run++
				continue
			}
			o2 := *o
			o2.noEvid = true
			o2.tier = "quick"
			o2.timeout = 10 * time.Second
			r2, err := runCheck(&o2, ov)
			run++
			hit := err == nil && len(r2.failed) > 0
			if err == nil {
				for _, b := range r2.bounded {
					if !b.OK {
						hit = true
					}
				}
			}
			if hit {
				detected++
			} else {
				missed = append(missed, m.Name)
				fmt.Printf("MUST-FAIL-MISSED property=%s mutant=%s\n", o.prop, m.Name)
			}
		}
		res.extra["must_fail_corpus"] = map[string]any{"mutants_run": run, "detected": detected, "missed": missed,
			"note": "property-breaking edits of /repo that compile; each must make an obligation of this check fail"}
	}
	return report(o, res)
}

func report(o *options, res *checkResult) int {
	known := loadKnown(o.verif)
	isKnown := func(ob *Obligation) *KnownFinding {
		for i := range known {
			k := &known[i]
			if k.Property == o.prop && k.Status == "open" && k.Obligation == ob.Name {
				return k
			}
		}
		return nil
	}
	var violations []*Obligation
	for _, ob := range res.failed {
		if k := isKnown(ob); k != nil {
			res.known = append(res.known, ob)
			fmt.Printf("KNOWN-FINDING: property=%s %s: %s\n", o.prop, ob.Name, k.What)
			continue
		}
		violations = append(violations, ob)
	}
	// a known finding whose obligation now passes is reported (stale entry), but is not a failure
	for _, k := range known {
		if k.Property != o.prop || k.Status != "open" {
			continue
		}
		found := false
		for _, ob := range res.failed {
			if ob.Name == k.Obligation {
				found = true
			}
		}
		if !found {
			fmt.Printf("NOTE: known finding %s no longer reproduces\n", k.Obligation)
		}
	}
	replayDir := filepath.Join(o.verif, "replays", o.prop)
	if !o.noEvid {
		_ = os.RemoveAll(replayDir)
	}
	exit := 0
	for _, ob := range violations {
		path := filepath.Join(replayDir, sanitizeFile(ob.Name)+".json")
		suffix := ""
		if !o.noEvid {
			found := writeReplay(o, res, ob, path)
			if !found {
				suffix = " no-failing-input-found"
			}
		} else {
			suffix = " no-failing-input-found"
		}
		fmt.Printf("VIOLATION property=%s replay=%s obligation=%s status=%s (%s)%s\n", o.prop, path, ob.Name, ob.Result.Status, relPos(ob.Pos), suffix)
		exit = 1
	}
	for _, b := range res.bounded {
		if b.OK {
			continue
		}
		path := filepath.Join(replayDir, "bounded."+sanitizeFile(b.Name)+".json")
		if !o.noEvid {
			_ = os.MkdirAll(replayDir, 0o755)
			rec := map[string]any{"property": o.prop, "obligation": "bounded." + b.Name, "kind": "bounded", "bound": b.Bound, "package": b.Pkg,
				"test_file": filepath.Join(o.verif, b.File), "command": "go test -overlay <" + b.File + " injected into " + b.Pkg + "> -run ^" + b.Run + "$", "output": truncate(b.Output, 20000),
				"replay_note": "bounded check on the real code: the output names the failing input"}
			data, _ := json.MarshalIndent(rec, "", " ")
			_ = os.WriteFile(path, data, 0o644)
		}
		fmt.Printf("VIOLATION property=%s replay=%s obligation=bounded.%s status=counterexample-on-real-code (%s)\n", o.prop, path, b.Name, b.Pkg)
		violations = append(violations, nil)
		exit = 1
	}
	for _, e := range res.errors {
		fmt.Printf("ERROR property=%s %s\n", o.prop, e)
		if exit == 0 {
			exit = 2
		}
	}
	if !o.noEvid {
		writeEvidence(o, res, len(violations))
	}
	nd := 0
	for _, ob := range res.obls {
		if oblOK(ob) {
			nd++
		}
	}
	fmt.Printf("property %s: %d functions under contract, %d obligations, %d discharged, %d known-finding, %d violations, load %.1fs solve %.1fs wall %.1fs\n",
		o.prop, len(res.reports), len(res.obls), nd, len(res.known), len(violations), res.world.LoadSecs, res.solveSecs, res.wall)
	if o.verbose {
		for _, ob := range res.obls {
			fmt.Printf("  %-8s %-7s %5.2fs %s  -- %s\n", ob.Result.Status, ob.Result.Solver, ob.Result.Time, ob.Name, ob.Desc)
		}
		for _, r := range res.reports {
			for _, n := range dedupe(r.Ctx.notes) {
				fmt.Printf("  note[%s]: %s\n", r.Name, n)
			}
		}
	}
	return exit
}

func dedupe(xs []string) []string {
	seen := map[string]bool{}
	var out []string
	for _, x := range xs {
		if !seen[x] {
			seen[x] = true
			out = append(out, x)
		}
	}
	return out
}

func writeReplay(o *options, res *checkResult, ob *Obligation, path string) bool {
	_ = os.MkdirAll(filepath.Dir(path), 0o755)
	rec := map[string]any{
		"property":      o.prop,
		"obligation":    ob.Name,
		"kind":          ob.Kind,
		"function":      ob.Func,
		"position":      relPos(ob.Pos),
		"description":   ob.Desc,
		"solver_status": ob.Result.Status,
		"solver":        ob.Result.Solver,
		"solver_output": truncate(ob.Result.Output, 20000),
	}
	qpath := strings.TrimSuffix(path, ".json") + ".smt2"
	_ = os.WriteFile(qpath, []byte(ob.slicedQuery()+"(check-sat)\n(get-model)\n"), 0o644)
	rec["query_file"] = qpath
	found := false
	if ob.Result.Status == "sat" {
		model := parseModel(ob.Result.Output)
		vals := map[string]string{}
		for _, mv := range ob.ModelVars {
			if v, ok := model[mv.Term.S]; ok {
				vals[mv.Label] = v
			}
		}
		rec["model"] = vals
		rp := tryReplay(o, res, ob, model)
		if rp != nil {
			rec["replay"] = rp
			if rp["confirmed"] == true {
				found = true
			}
		}
	}
	if !found {
		rec["replay_note"] = "no failing input replayed against the real code: " + replayReason(ob)
	}
	data, _ := json.MarshalIndent(rec, "", " ")
	_ = os.WriteFile(path, data, 0o644)
	return found
}

func replayReason(ob *Obligation) string {
	switch ob.Result.Status {
	case "sat":
		return "the solver's model is over abstract values (heap/library results) that this replay generator cannot concretise"
	case "unknown", "timeout":
		return "the solvers returned " + ob.Result.Status + " (no model); the obligation was discharged on the unchanged tree and no longer is"
	}
	return ob.Result.Status
}

func writeEvidence(o *options, res *checkResult, violations int) {
	meta := loadPropMeta(o.verif, o.prop)
	trusted := map[string]bool{}
	var funcs []map[string]any
	var notes []string
	for _, r := range res.reports {
		if r.Ctx == nil {
			continue
		}
		for t := range r.Ctx.trusted {
			trusted[t] = true
		}
		kinds := map[string]int{}
		for _, ob := range r.Ctx.obls {
			kinds[ob.Kind]++
		}
		funcs = append(funcs, map[string]any{"function": r.Name, "position": r.Pos, "obligations": len(r.Ctx.obls), "by_kind": kinds, "arith": arithName(r.Ctx.Mode), "error": r.Err})
		for _, n := range dedupe(r.Ctx.notes) {
			notes = append(notes, r.Name+": "+n)
		}
	}
	if fs, ok := res.extra["functions"].([]map[string]any); ok {
		funcs = append(funcs, fs...)
	}
	if ts, ok := res.extra["trusted"].([]string); ok {
		for _, t := range ts {
			trusted[t] = true
		}
	}
	trusted["govc VC generator, go/ssa (x/tools v0.50.0), go/types, and the SMT solvers"] = true
	trusted["termination is not proved"] = true
	for _, rw := range res.world.Rewrites {
		trusted["source rewrite before type-checking: "+strings.TrimPrefix(rw, "/repo/")] = true
	}
	var tb []string
	for t := range trusted {
		tb = append(tb, t)
	}
	sort.Strings(tb)
	bySolver := map[string]int{}
	solverTime := 0.0
	maxT := 0.0
	discharged := 0
	covers := 0
	total := 0
	knownN := len(res.known)
	knownSet := map[*Obligation]bool{}
	for _, k := range res.known {
		knownSet[k] = true
	}
	var samples []map[string]any
	deadSites := []string{}
	for _, ob := range res.obls {
		if knownSet[ob] {
			continue
		}
		total++
		if ob.Cover {
			covers++
		}
		if ob.DeadCode {
			deadSites = append(deadSites, ob.Name+" ("+relPos(ob.Pos)+")")
		}
		if oblOK(ob) {
			discharged++
			bySolver[ob.Result.Solver]++
		}
		solverTime += ob.Result.Time
		if ob.Result.Time > maxT {
			maxT = ob.Result.Time
		}
	}
	step := 1
	if len(res.obls) > 12 {
		step = len(res.obls) / 12
	}
	for i := 0; i < len(res.obls); i += step {
		ob := res.obls[i]
		samples = append(samples, map[string]any{"obligation": ob.Name, "kind": ob.Kind, "at": relPos(ob.Pos), "what": truncate(ob.Desc, 200),
			"status": ob.Result.Status, "solver": ob.Result.Solver, "time_s": round3(ob.Result.Time), "smt_bytes": len(ob.slicedQuery()), "expected": expectedStatus(ob)})
	}
	cov := map[string]any{
		"obligations":               total,
		"discharged":                discharged,
		"checker_cmd":               fmt.Sprintf("/verif/bin/govc check -prop %s -tier %s", o.prop, o.tier),
		"trusted_base":              tb,
		"samples":                   samples,
		"functions_under_contract":  funcs,
		"discharged_by_solver":      bySolver,
		"solver_time_s":             round3(solverTime),
		"max_obligation_time_s":     round3(maxT),
		"cover_checks":              covers,
		"dead_code_call_sites":      deadSites,
		"known_finding_obligations": knownN,
		"sub_claims_not_covered":    meta.NotCovered,
		"claim":                     meta.Claim,
		"integers":                  "Int encoding: mathematical integers with per-operation overflow obligations for signed arithmetic and exact modular semantics for unsigned arithmetic and conversions; functions marked 'bv' use bit-vectors with exact Go semantics",
		"notes":                     notes,
		"load_s":                    round3(res.world.LoadSecs),
		"engine_errors":             res.errors,
	}
	if len(res.bounded) > 0 {
		var bl []map[string]any
		for _, b := range res.bounded {
			bl = append(bl, map[string]any{"name": b.Name, "package": b.Pkg, "bound": b.Bound, "evaluations": b.Evaluations, "passed": b.OK, "time_s": round3(b.Secs),
				"note": "bounded stand-in on the real code, NOT counted under obligations/discharged"})
		}
		cov["bounded"] = bl
	}
	for k, v := range res.extra {
		if k != "functions" && k != "trusted" {
			cov[k] = v
		}
	}
	ev := map[string]any{
		"property_id": o.prop,
		"tier":        o.tier,
		"seed":        o.seed,
		"level":       "proof",
		"coverage":    cov,
		"assumptions": tb,
		"wall_s":      round3(res.wall),
		"violations":  violations,
	}
	dir := filepath.Join(o.verif, "evidence")
	_ = os.MkdirAll(dir, 0o755)
	data, _ := json.MarshalIndent(ev, "", " ")
	_ = os.WriteFile(filepath.Join(dir, o.prop+".json"), data, 0o644)
}

func expectedStatus(ob *Obligation) string {
	if ob.Cover {
		return "sat (vacuity guard)"
	}
	return "unsat"
}

func arithName(m ArithMode) string {
	if m == ArithBV {
		return "bv"
	}
	return "int"
}

func round3(f float64) float64 { return float64(int(f*1000+0.5)) / 1000 }

// parseModel extracts (define-fun name () Sort value) entries from solver output.
func parseModel(out string) map[string]string {
	m := map[string]string{}
	lines := strings.Split(out, "\n")
	for i := 0; i < len(lines); i++ {
		l := strings.TrimSpace(lines[i])
		if !strings.HasPrefix(l, "(define-fun ") {
			continue
		}
		rest := strings.TrimPrefix(l, "(define-fun ")
		sp := strings.Index(rest, " ")
		if sp < 0 {
			continue
		}
		name := rest[:sp]
		rest = strings.TrimSpace(rest[sp:])
		if !strings.HasPrefix(rest, "()") {
			continue
		}
		// value may be on the same or the next line(s): gather until parens balance
		body := rest
		depth := strings.Count(l, "(") - strings.Count(l, ")")
		for depth > 0 && i+1 < len(lines) {
			i++
			body += " " + strings.TrimSpace(lines[i])
			depth += strings.Count(lines[i], "(") - strings.Count(lines[i], ")")
		}
		body = strings.TrimSpace(strings.TrimPrefix(body, "()"))
		// strip sort
		val := stripSort(body)
		val = strings.TrimSuffix(strings.TrimSpace(val), ")")
		m[name] = strings.TrimSpace(val)
	}
	return m
}

func stripSort(s string) string {
	s = strings.TrimSpace(s)
	if strings.HasPrefix(s, "(") {
		depth := 0
		for i := 0; i < len(s); i++ {
			if s[i] == '(' {
				depth++
			} else if s[i] == ')' {
				depth--
				if depth == 0 {
					return s[i+1:]
				}
			}
		}
		return s
	}
	sp := strings.IndexAny(s, " \t")
	if sp < 0 {
		return ""
	}
	return s[sp:]
}


// runBounded runs one bounded stand-in against the real package (test injected through an overlay, nothing written to the repo).
func runBounded(o *options, b BoundedCheck, overlay map[string][]byte) *boundedResult {
	r := &boundedResult{BoundedCheck: b}
	start := time.Now()
	dir, err := os.MkdirTemp("", "govc-bounded-")
	if err != nil {
		r.Output = err.Error()
		return r
	}
	defer os.RemoveAll(dir)
	rep := map[string]string{filepath.Join(o.repo, b.Pkg, "zz_govc_bounded_test.go"): filepath.Join(o.verif, b.File)}
	i := 0
	for path, data := range overlay {
		// selftest mutants and -overlay files apply to the bounded run as well
		i++
		f := filepath.Join(dir, fmt.Sprintf("ov%d.go", i))
		_ = os.WriteFile(f, data, 0o644)
		rep[path] = f
	}
	ov, _ := json.Marshal(map[string]any{"Replace": rep})
	ovFile := filepath.Join(dir, "overlay.json")
	_ = os.WriteFile(ovFile, ov, 0o644)
	cmd := exec.Command("go", "test", "-overlay", ovFile, "-vet=off", "-count=1", "-timeout", "300s", "-run", "^"+b.Run+"$", "-v", "./"+b.Pkg+"/")
	cmd.Dir = o.repo
	cmd.Env = append(os.Environ(), "GOFLAGS=-mod=mod", "GOPROXY=off", "GOSUMDB=off", "GOTOOLCHAIN=local", "PATH=/opt/veriftools/go1.26.8/bin:"+os.Getenv("PATH"))
	out, err := cmd.CombinedOutput()
	r.Output = string(out)
	r.Secs = time.Since(start).Seconds()
	for _, l := range strings.Split(r.Output, "\n") {
		if k := strings.Index(l, "BOUNDED-EVALUATIONS:"); k >= 0 {
			fmt.Sscanf(strings.TrimSpace(l[k+len("BOUNDED-EVALUATIONS:"):]), "%d", &r.Evaluations)
		}
	}
	r.OK = err == nil && r.Evaluations > 0 && strings.Contains(r.Output, "--- PASS: "+b.Run)
	return r
}


// checkStoreSites scans the SSA of the package for writes to a struct field and reports every write outside the
// allowed functions (a structural check on the real code; reported like a bounded result: not an SMT obligation).
func (w *World) checkStoreSites(o *options, r StoreSiteRule) []*boundedResult {
	name := fmt.Sprintf("storesites.%s.%s", r.Type, r.Field)
	out := &boundedResult{BoundedCheck: BoundedCheck{Name: name, Pkg: r.Pkg, Bound: fmt.Sprintf("every SSA instruction of package %s: %s.%s is inserted into only in %v and assigned only in %v", r.Pkg, r.Type, r.Field, r.InsertIn, r.AssignIn)}, OK: true}
	sp := w.ssaPkg(modulePath + "/" + r.Pkg)
	if sp == nil {
		out.OK = false
		out.Output = "package not loaded"
		return []*boundedResult{out}
	}
	isField := func(v ssa.Value) bool {
		fa, ok := v.(*ssa.FieldAddr)
		if !ok {
			return false
		}
		pt, ok := fa.X.Type().Underlying().(*types.Pointer)
		if !ok {
			return false
		}
		n, ok := pt.Elem().(*types.Named)
		if !ok || n.Obj().Name() != r.Type {
			return false
		}
		return n.Underlying().(*types.Struct).Field(fa.Field).Name() == r.Field
	}
	allowed := func(list []string, f *ssa.Function) bool {
		k := funcKey(f)
		for _, a := range list {
			if k == a || k == r.Type+"."+a || strings.HasPrefix(k, r.Type+"."+a+"$") {
				return true
			}
		}
		return false
	}
	for _, f := range allFunctions(sp) {
		for _, b := range f.Blocks {
			for _, in := range b.Instrs {
				out.Evaluations++
				switch in := in.(type) {
				case *ssa.Store:
					if isField(in.Addr) && !allowed(r.AssignIn, f) {
						out.OK = false
						out.Output += fmt.Sprintf("%s.%s assigned in %s at %s\n", r.Type, r.Field, funcKey(f), relPos(w.Fset.Position(in.Pos())))
					}
				case *ssa.MapUpdate:
					if ld, ok := in.Map.(*ssa.UnOp); ok && isField(ld.X) && !allowed(r.InsertIn, f) {
						out.OK = false
						out.Output += fmt.Sprintf("%s.%s inserted into in %s at %s\n", r.Type, r.Field, funcKey(f), relPos(w.Fset.Position(in.Pos())))
					}
				}
			}
		}
	}
	return []*boundedResult{out}
}

// checkCloserPairs: see CloserPairRule (a structural check on the real code; reported like a bounded result).
func (w *World) checkCloserPairs(o *options, r CloserPairRule) *boundedResult {
	out := &boundedResult{BoundedCheck: BoundedCheck{Name: "closerpairs." + r.Opener, Pkg: strings.Join(r.Pkgs, ","),
		Bound: fmt.Sprintf("every call of hooks.%s in %v: the returned closer is deferred at once in the same block (local written once, used only by that defer) or stored into one of %v", r.Opener, r.Pkgs, r.Fields)}, OK: true}
	fail := func(format string, args ...any) {
		out.OK = false
		out.Output += fmt.Sprintf(format, args...) + "\n"
	}
	sites := 0
	for _, dir := range r.Pkgs {
		sp := w.ssaPkg(modulePath + "/" + dir)
		if sp == nil {
			fail("package %s not loaded", dir)
			continue
		}
		for _, f := range allFunctions(sp) {
			for _, b := range f.Blocks {
				for idx, in := range b.Instrs {
					out.Evaluations++
					call, ok := in.(*ssa.Call)
					if !ok {
						continue
					}
					callee := call.Call.StaticCallee()
					if callee == nil || callee.Pkg == nil || callee.Pkg.Pkg.Path() != modulePath+"/internal/hooks" || callee.Name() != r.Opener {
						continue
					}
					sites++
					where := fmt.Sprintf("%s at %s", funcKey(f), relPos(w.Fset.Position(call.Pos())))
					var refl []ssa.Instruction
					if rr := call.Referrers(); rr != nil {
						for _, u := range *rr {
							if _, dbg := u.(*ssa.DebugRef); !dbg {
								refl = append(refl, u)
							}
						}
					}
					refs := &refl
					if len(*refs) != 1 {
						fail("%s: the closer returned by hooks.%s is used %d times directly (expected one store)", where, r.Opener, len(*refs))
						continue
					}
					st, ok := (*refs)[0].(*ssa.Store)
					if !ok || st.Val != ssa.Value(call) {
						fail("%s: the closer returned by hooks.%s is not stored into a local or field", where, r.Opener)
						continue
					}
					switch addr := st.Addr.(type) {
					case *ssa.FieldAddr:
						pt, _ := addr.X.Type().Underlying().(*types.Pointer)
						var key string
						if pt != nil {
							if n, ok := pt.Elem().(*types.Named); ok {
								key = dir + ":" + n.Obj().Name() + "." + n.Underlying().(*types.Struct).Field(addr.Field).Name()
							}
						}
						okf := false
						for _, a := range r.Fields {
							if a == key {
								okf = true
							}
						}
						if !okf {
							fail("%s: the closer is stored into field %s, which is not listed as field-managed", where, key)
						}
					case *ssa.Alloc:
						// the local: written once (this store), read only to be deferred, exactly one defer, in this block, no call in between
						defers, stores := 0, 0
						bad := false
						var theDefer *ssa.Defer
						for _, u := range *addr.Referrers() {
							switch u := u.(type) {
							case *ssa.Store:
								if u.Addr == ssa.Value(addr) {
									stores++
								} else {
									bad = true
								}
							case *ssa.UnOp:
								for _, uu := range *u.Referrers() {
									if _, dbg := uu.(*ssa.DebugRef); dbg {
										continue
									}
									if d, ok := uu.(*ssa.Defer); ok && d.Call.Value == ssa.Value(u) && len(d.Call.Args) == 0 {
										defers++
										theDefer = d
									} else {
										bad = true
									}
								}
							case *ssa.DebugRef:
							default:
								bad = true
							}
						}
						if stores != 1 || defers != 1 || bad {
							fail("%s: the local holding the closer is written %d times, deferred %d times, other uses: %v (expected 1, 1, false)", where, stores, defers, bad)
							continue
						}
						if theDefer.Block() != b {
							fail("%s: the closer is deferred in another basic block (a path from the opener may skip the defer)", where)
							continue
						}
						seen := false
						for _, mid := range b.Instrs[idx+1:] {
							if mid == ssa.Instruction(theDefer) {
								seen = true
								break
							}
							switch mid.(type) {
							case *ssa.Call, *ssa.Go, *ssa.Defer, *ssa.Panic, *ssa.Send, *ssa.Select:
								fail("%s: %T between the opener and the defer of its closer", where, mid)
							}
						}
						if !seen {
							fail("%s: the defer of the closer precedes the opener", where)
						}
					default:
						fail("%s: the closer is stored through %T", where, st.Addr)
					}
				}
			}
		}
	}
	if sites < r.MinSites {
		fail("only %d call sites of hooks.%s found, expected at least %d (vacuity guard)", sites, r.Opener, r.MinSites)
	}
	out.Output = fmt.Sprintf("%d call sites of hooks.%s\n", sites, r.Opener) + out.Output
	return out
}
