package main

// Field range invariants of module structs: proved at every store (and every allocation that
// leaves the field at its zero value), then available as a heap well-formedness axiom.

import (
	"fmt"
	"go/types"
	"sort"
	"strings"

	"golang.org/x/tools/go/ssa"
)

// fieldInvFor returns the invariant registered for struct type t, field i (if any).
func (w *World) fieldInvFor(t types.Type, i int) *FieldInv {
	n, ok := t.(*types.Named)
	if !ok || n.Obj().Pkg() == nil {
		return nil
	}
	st, ok := t.Underlying().(*types.Struct)
	if !ok {
		return nil
	}
	for _, fi := range w.FieldInvs {
		if fi.PkgPath == n.Obj().Pkg().Path() && fi.Type == n.Obj().Name() && fi.Field == st.Field(i).Name() {
			return fi
		}
	}
	return nil
}

func (w *World) runFieldInvs(o *options, res *checkResult) {
	for _, fi := range w.FieldInvs {
		if !contains(fi.Props, o.prop) {
			continue
		}
		w.runFieldInv(fi, o, res)
	}
}

func (w *World) runFieldInv(fi *FieldInv, o *options, res *checkResult) {
	sp := w.SSAPkgs[fi.PkgPath]
	if sp == nil {
		res.errors = append(res.errors, fmt.Sprintf("fieldinv %s.%s: package not loaded", fi.Type, fi.Field))
		return
	}
	tn, ok := sp.Members[fi.Type].(*ssa.Type)
	if !ok {
		res.errors = append(res.errors, fmt.Sprintf("%s:%d: fieldinv: type %s not found (stale)", relFile(fi.File), fi.Line, fi.Type))
		return
	}
	TT := tn.Type()
	st, ok := TT.Underlying().(*types.Struct)
	if !ok {
		res.errors = append(res.errors, fmt.Sprintf("fieldinv: %s is not a struct", fi.Type))
		return
	}
	fidx := -1
	for i := 0; i < st.NumFields(); i++ {
		if st.Field(i).Name() == fi.Field {
			fidx = i
		}
	}
	if fidx < 0 {
		res.errors = append(res.errors, fmt.Sprintf("%s:%d: fieldinv: field %s.%s not found (stale)", relFile(fi.File), fi.Line, fi.Type, fi.Field))
		return
	}
	var pkgs []string
	for p := range w.SSAPkgs {
		if strings.HasPrefix(p, modulePath) {
			pkgs = append(pkgs, p)
		}
	}
	sort.Strings(pkgs)
	sites := 0
	for _, pp := range pkgs {
		p := w.ssaPkg(pp)
		for _, f := range allFunctions(p) {
			type site struct {
				in   ssa.Instruction
				val  ssa.Value // stored value, nil = zero value / unknown
				what string
			}
			var found []site
			for _, b := range f.Blocks {
				for _, in := range b.Instrs {
					switch in := in.(type) {
					case *ssa.Store:
						if fa, ok := in.Addr.(*ssa.FieldAddr); ok && fa.Field == fidx {
							if pt, ok := fa.X.Type().Underlying().(*types.Pointer); ok && types.Identical(pt.Elem(), TT) {
								found = append(found, site{in, in.Val, "store"})
							}
						}
						// whole-struct store
						if pt, ok := in.Addr.Type().Underlying().(*types.Pointer); ok && types.Identical(pt.Elem(), TT) {
							found = append(found, site{in, nil, "whole-struct store"})
						}
					case *ssa.Alloc:
						if types.Identical(in.Type().(*types.Pointer).Elem(), TT) {
							// the literal must set the field
							set := false
							if refs := in.Referrers(); refs != nil {
								for _, r := range *refs {
									if fa, ok := r.(*ssa.FieldAddr); ok && fa.Field == fidx {
										if frefs := fa.Referrers(); frefs != nil {
											for _, fr := range *frefs {
												if s, ok := fr.(*ssa.Store); ok && s.Addr == fa {
													set = true
												}
											}
										}
									}
								}
							}
							if !set {
								found = append(found, site{in, nil, "allocation leaving the field at its zero value"})
							}
						}
					}
				}
			}
			if len(found) == 0 {
				continue
			}
			name := shortPkg(pp) + "." + funcKey(f)
			c := newCtx(w, name, ArithInt)
			c.Props = fi.Props
			rep := &FuncReport{Name: name + " (field invariant " + fi.Type + "." + fi.Field + ")", Key: funcKey(f), Pkg: pp, Pos: relPos(w.Fset.Position(f.Pos())), Ctx: c}
			func() {
				defer func() {
					if r := recover(); r != nil {
						if u, ok := r.(unsupportedErr); ok {
							rep.Err = u.msg
							return
						}
						panic(r)
					}
				}()
				ex := &Exec{w: w, c: c, fn: f, vals: map[ssa.Value]Val{}, exit: map[*ssa.BasicBlock]*State{}, reach: map[*ssa.BasicBlock]Term{}, params: map[string]Val{}}
				c.decl("const:alloc0", "(declare-const alloc0 Int)")
				c.decl("ax:alloc0", "(assert (>= alloc0 1))")
				c.decl("const:time.zero.ns", "(declare-const time.zero.ns Int)")
				ex.st = &State{cells: map[*ssa.Alloc]Term{}, heaps: map[string]Term{}, alloc: Term{"alloc0", SInt}}
				ex.entry = ex.st.clone()
				ex.rch = tTrue
				for n, s := range found {
					var goal Term
					desc := s.what
					if s.val == nil {
						if s.what == "whole-struct store" {
							goal = tFalse
						} else {
							goal = T(SBool, "(and (<= %s 0) (<= 0 %s))", fi.Lo, fi.Hi)
						}
					} else {
						pc := &provCtx{ex: ex, seen: map[ssa.Value]Val{}, desc: map[ssa.Value]string{}}
						v := pc.prov(s.val, 0)
						goal = T(SBool, "(and (<= %s %s) (<= %s %s))", fi.Lo, v.T.S, v.T.S, fi.Hi)
						desc = "store of " + pc.describe(s.val)
					}
					c.obligeNamed(fmt.Sprintf("fieldinv.%s.%s.%d", fi.Type, fi.Field, n+1), "fieldinv", w.Fset.Position(s.in.Pos()),
						fmt.Sprintf("%s.%s stays in [%s, %s]: %s", fi.Type, fi.Field, fi.Lo, fi.Hi, desc), tTrue, goal)
					sites++
				}
			}()
			res.reports = append(res.reports, rep)
			if rep.Err != "" {
				res.errors = append(res.errors, rep.Name+": "+rep.Err)
				continue
			}
			res.obls = append(res.obls, c.obls...)
		}
	}
	res.extra["fieldinv_"+fi.Type+"_"+fi.Field+"_store_sites"] = sites
	if sites == 0 {
		res.errors = append(res.errors, fmt.Sprintf("fieldinv %s.%s: no store site found in the loaded packages (vacuous)", fi.Type, fi.Field))
	}
}
