package main

// Verification of one function against its contract.

import (
	"fmt"
	"go/ast"
	"go/parser"
	"go/types"
	"strings"

	"golang.org/x/tools/go/ssa"
)

func parseExprRaw(s string) (ast.Expr, error) { return parser.ParseExpr(s) }

type FuncReport struct {
	Name     string
	Key      string
	Pkg      string
	Pos      string
	Ctx      *Ctx
	Err      string
	Contract *Contract
}

func (w *World) verifyFunction(fn *ssa.Function, ct *Contract, props []string) (rep *FuncReport) {
	name := shortPkg(funcPkgPath(fn)) + "." + funcKey(fn)
	rep = &FuncReport{Name: name, Key: funcKey(fn), Pkg: funcPkgPath(fn), Pos: relPos(w.Fset.Position(fn.Pos())), Contract: ct}
	mode := ArithInt
	if ct.Arith == "bv" {
		mode = ArithBV
	}
	c := newCtx(w, name, mode)
	c.Props = props
	rep.Ctx = c
	defer func() {
		if r := recover(); r != nil {
			if u, ok := r.(unsupportedErr); ok {
				rep.Err = u.msg
				return
			}
			panic(r)
		}
	}()
	if len(fn.Blocks) == 0 {
		rep.Err = "function has no body"
		return
	}
	ex := &Exec{w: w, c: c, fn: fn, ct: ct, vals: map[ssa.Value]Val{}, exit: map[*ssa.BasicBlock]*State{}, reach: map[*ssa.BasicBlock]Term{},
		params: map[string]Val{}, topLevel: true}
	c.decl("const:alloc0", "(declare-const alloc0 Int)")
	c.decl("ax:alloc0", "(assert (>= alloc0 1))")
	c.decl("const:time.zero.ns", "(declare-const time.zero.ns Int)")
	ex.st = &State{cells: map[*ssa.Alloc]Term{}, heaps: map[string]Term{}, alloc: Term{"alloc0", SInt}}
	ex.entry = ex.st.clone()
	ex.rch = tTrue
	var mvars []ModelVar
	for i, p := range fn.Params {
		x := Term{"p." + sanitizeSym(p.Name()), c.sortOf(p.Type())}
		c.decl("const:"+x.S, fmt.Sprintf("(declare-const %s %s)", x.S, x.Sort))
		c.assume(ex.typeFacts(x, p.Type()))
		v := Val{T: x, Ty: p.Type()}
		ex.vals[p] = v
		ex.params[p.Name()] = v
		mvars = append(mvars, ModelVar{Label: p.Name(), Term: x})
		if i == 0 && fn.Signature.Recv() != nil {
			if _, isPtr := p.Type().Underlying().(*types.Pointer); isPtr {
				c.assume(Not(Eq(x, IntLit("0"))))
				c.trust("method receivers are non-nil")
			}
			ex.params["recv"] = v
		}
	}
	for _, fv := range fn.FreeVars {
		x := Term{"fv." + sanitizeSym(fv.Name()), c.sortOf(fv.Type())}
		c.decl("const:"+x.S, fmt.Sprintf("(declare-const %s %s)", x.S, x.Sort))
		c.assume(ex.typeFacts(x, fv.Type()))
		c.assume(Not(Eq(x, IntLit("0"))))
		ex.vals[fv] = Val{T: x, Ty: fv.Type()}
		// the captured variable is visible in contracts under its name (as the boxed value)
		ex.params["&"+fv.Name()] = Val{T: x, Ty: fv.Type()}
	}
	// preconditions
	pre := ex.contractEnv(ex.st, ex.entry)
	pre.locals = false
	for k, v := range ex.params {
		pre.vars[k] = v
	}
	for _, r := range ct.Requires {
		c.assume(ex.evalBool(pre, r))
	}
	for _, d := range ct.Domain {
		c.assume(ex.evalBool(pre, d))
		c.note("domain hypothesis of the property statement: %s", d.Text)
	}
	ex.proveLocalLemmas(pre)
	cov := c.obligeNamed("cover.pre", "cover", w.Fset.Position(fn.Pos()), "preconditions are satisfiable", tTrue, tTrue)
	cov.Cover = true
	ex.run()
	// postconditions at the merged exit
	if len(ex.rets) == 0 {
		c.note("function never returns normally")
		return
	}
	guards := make([]Term, len(ex.rets))
	for i, r := range ex.rets {
		guards[i] = r.guard
	}
	exitGuard := c.define("exit", Or(guards...))
	exitState := ex.mergeReturns()
	res := fn.Signature.Results()
	post := ex.contractEnv(exitState, ex.entry)
	// parameters denote their entry values (they are in post.vars); other locals denote their values at exit
	post.locals = true
	for k, v := range ex.params {
		post.vars[k] = v
	}
	for i := 0; i < res.Len(); i++ {
		v := ex.mergedResult(i, res.At(i).Type())
		post.vars[fmt.Sprintf("result%d", i)] = v
		if n := res.At(i).Name(); n != "" && n != "_" {
			post.vars[n] = v
		}
		if res.Len() == 1 {
			post.vars["result"] = v
		}
		mvars = append(mvars, ModelVar{Label: fmt.Sprintf("result%d", i), Term: v.T})
	}
	cx := c.obligeNamed("cover.exit", "cover", w.Fset.Position(fn.Pos()), "some return is reachable", exitGuard, tTrue)
	cx.Cover = true
	if ct.SplitReturns {
		// large functions: each postcondition is proved at every return separately, on that return's own state
		// (no merged exit state, so each query only carries one path's heap)
		for k, r := range ex.rets {
			renv := ex.contractEnv(r.state, ex.entry)
			renv.locals = true
			for kk, v := range ex.params {
				renv.vars[kk] = v
			}
			for i := 0; i < res.Len() && i < len(r.results); i++ {
				renv.vars[fmt.Sprintf("result%d", i)] = r.results[i]
				if n := res.At(i).Name(); n != "" && n != "_" {
					renv.vars[n] = r.results[i]
				}
				if res.Len() == 1 {
					renv.vars["result"] = r.results[i]
				}
			}
			for i, en := range ct.Ensures {
				if en.Assumed {
					continue
				}
				g := ex.evalBool(renv, en)
				nm := fmt.Sprintf("post.%d", i+1)
				if en.Name != "" {
					nm = "post." + en.Name
				}
				o := c.obligeNamed(fmt.Sprintf("%s@r%d", nm, k+1), "post", ex.pos(r.pos), "postcondition at this return: "+en.Text, r.guard, g)
				o.ModelVars = mvars
				o.Clause = en
			}
		}
	}
	for i, en := range ct.Ensures {
		if ct.SplitReturns {
			if en.Assumed {
				c.trust(fmt.Sprintf("%s: postcondition %q is an assumption about a dependency (assumed-ensures), not proved from the body", name, en.Text))
			}
			continue
		}
		if en.Assumed {
			c.trust(fmt.Sprintf("%s: postcondition %q is an assumption about a dependency (assumed-ensures), not proved from the body", name, en.Text))
			continue
		}
		g := ex.evalBool(post, en)
		nm := fmt.Sprintf("post.%d", i+1)
		if en.Name != "" {
			nm = "post." + en.Name
		}
		o := c.obligeNamed(nm, "post", w.Fset.Position(fn.Pos()), "postcondition: "+en.Text, exitGuard, g)
		o.ModelVars = mvars
		o.Clause = en
	}
	// frame: a contract that declares "pure" or "modifies nothing" must leave every pre-existing object unchanged
	if ct.HasMod && len(ct.Modifies) == 0 {
		if exitState.base != ex.entry.base {
			c.obligeNamed("frame.heap", "frame", w.Fset.Position(fn.Pos()), "declared frame (modifies nothing): a callee may modify the whole heap", exitGuard, tFalse)
		}
		for _, k := range sortedKeys(exitState.heaps) {
			if strings.HasPrefix(k, "MVIS:") {
				continue // ghost state of map iteration, not program memory
			}
			hx := exitState.heaps[k]
			h0 := c.heapGet(ex.entry, k)
			if hx.S == h0.S {
				continue
			}
			info := c.heapSorts[k]
			var goal Term
			if info.sort == info.elem {
				goal = Eq(hx, h0)
			} else {
				goal = T(SBool, "(forall ((r Int)) (=> (< r alloc0) (= (select %s r) (select %s r))))", hx.S, h0.S)
			}
			c.obligeNamed("frame."+sanitizeSym(k), "frame", w.Fset.Position(fn.Pos()), "declared frame (modifies nothing): pre-existing "+k+" unchanged", exitGuard, goal)
		}
	}
	for _, o := range c.obls {
		o.Fn = fn
		o.Ct = ct
		if o.ModelVars == nil {
			o.ModelVars = mvars
		}
	}
	return
}

// selectContracts returns the contracts serving a property, in deterministic order.
func (w *World) selectContracts(prop string) []*Contract {
	var out []*Contract
	for _, k := range sortedKeys(w.Contracts) {
		ct := w.Contracts[k]
		if prop == "" || contains(ct.Props, prop) {
			out = append(out, ct)
		}
	}
	return out
}

func describeFuncs(reps []*FuncReport) string {
	var b strings.Builder
	for _, r := range reps {
		fmt.Fprintf(&b, "%s (%s)\n", r.Name, r.Pos)
	}
	return b.String()
}
