package main

// assert-call obligations (conditions on the arguments handed to a callee) and spec-level lemmas.

import (
	"fmt"
	"go/token"
	"go/types"
	"strings"

	"golang.org/x/tools/go/ssa"
)

// assertCalls emits the obligations of "assert-call <callee>: expr" clauses of the function under verification.
// Inside expr the callee's parameter names denote the actual arguments; the caller's parameters keep their names
// (callee names win on clashes), old() refers to the caller's entry state.
func (ex *Exec) assertCalls(calleeName string, names []string, args []Val, p token.Pos) {
	root := ex
	for root.parent != nil {
		root = root.parent
	}
	if root.ct == nil || len(root.ct.Asserts) == 0 {
		return
	}
	counted := map[string]bool{}
	for i, cl := range root.ct.Asserts {
		if !calleeMatches(calleeName, cl.Name) {
			continue
		}
		if !counted[cl.Name] {
			// ghost call counter, readable as called(<name>) in postconditions
			counted[cl.Name] = true
			if ex.st.ghost == nil {
				ex.st.ghost = map[string]Term{}
			}
			old, ok := ex.st.ghost[cl.Name]
			if !ok {
				old = IntLit("0")
			}
			ex.st.ghost[cl.Name] = ex.c.define("g."+cl.Name, T(SInt, "(+ %s 1)", old.S))
		}
		env := root.contractEnv(ex.st, root.entry)
		env.locals = ex == root
		for k, v := range root.params {
			env.vars[k] = v
			env.vars["caller_"+k] = v
		}
		for j, n := range names {
			if j < len(args) && n != "" && n != "_" {
				env.vars[n] = args[j]
			}
		}
		for j := range args {
			env.vars[fmt.Sprintf("arg%d", j)] = args[j]
		}
		// a non-pointer value boxed into an interface argument (e.g. the struct handed to json.Marshal) is
		// readable as <param>_val / argN_val
		if cc := ex.curCall; cc != nil && !cc.IsInvoke() && len(cc.Args) == len(args) {
			for j, a := range cc.Args {
				mi, ok := a.(*ssa.MakeInterface)
				if !ok {
					continue
				}
				switch mi.X.Type().Underlying().(type) {
				case *types.Pointer, *types.Map, *types.Chan, *types.Signature, *types.Interface:
					continue
				}
				bv := ex.val(mi.X)
				if bv.Loc != nil {
					continue
				}
				env.vars[fmt.Sprintf("arg%d_val", j)] = bv
				if j < len(names) && names[j] != "" && names[j] != "_" {
					env.vars[names[j]+"_val"] = bv
				}
			}
		}
		g := root.evalBool(env, cl)
		root.assertN++
		ex.c.obligeNamed(fmt.Sprintf("call.%s.%d@%d", sanitizeSym(cl.Name), i+1, root.assertCount(cl.Name)), "call", ex.pos(p),
			fmt.Sprintf("at the call of %s: %s", cl.Name, cl.Text), ex.rch, g)
	}
}

func (ex *Exec) assertCount(name string) int {
	if ex.assertSeen == nil {
		ex.assertSeen = map[string]int{}
	}
	ex.assertSeen[name]++
	return ex.assertSeen[name]
}

func calleeMatches(full, pat string) bool {
	if full == pat {
		return true
	}
	// instantiations of generic functions match under the generic name: errors.AsType[*os/exec.ExitError] ~ AsType
	if i := strings.Index(full, "["); i > 0 && strings.HasSuffix(full, "]") {
		full = full[:i]
		if full == pat {
			return true
		}
	}
	// Type.method names a method of (a pointer to) that type:  muxer.handleRequest ~ (*pkg/path.muxer).handleRequest
	if t, m, ok := strings.Cut(pat, "."); ok && !strings.ContainsAny(t, "/()") && !strings.ContainsAny(m, "./()") {
		if strings.HasSuffix(full, "."+t+")."+m) || strings.HasSuffix(full, "/"+t+")."+m) {
			return true
		}
	}
	short := strings.ReplaceAll(full, modulePath+"/internal/", "")
	short = strings.ReplaceAll(short, modulePath+"/", "")
	return short == pat || strings.HasSuffix(full, "."+pat) || strings.HasSuffix(full, ")."+pat)
}

// runLemmas proves the spec-level lemmas tagged with the property.
func (w *World) runLemmas(o *options, res *checkResult) {
	for _, ax := range w.Axioms {
		if !ax.Lemma || !contains(ax.Props, o.prop) {
			continue
		}
		name := "lemma." + ax.Name
		c := newCtx(w, name, ArithInt)
		c.Props = ax.Props
		rep := &FuncReport{Name: name, Key: ax.Name, Pos: fmt.Sprintf("%s:%d", relFile(ax.File), ax.Line), Ctx: c}
		func() {
			defer func() {
				if r := recover(); r != nil {
					if u, ok := r.(unsupportedErr); ok {
						rep.Err = u.msg
						return
					}
					panic(r)
				}
			}()
			ex := &Exec{w: w, c: c, vals: map[ssa.Value]Val{}, params: map[string]Val{}}
			c.decl("const:alloc0", "(declare-const alloc0 Int)")
			c.decl("ax:alloc0", "(assert (>= alloc0 1))")
			c.decl("const:time.zero.ns", "(declare-const time.zero.ns Int)")
			ex.st = &State{cells: map[*ssa.Alloc]Term{}, heaps: map[string]Term{}, alloc: Term{"alloc0", SInt}}
			ex.entry = ex.st.clone()
			ex.rch = tTrue
			env := &Env{ex: ex, st: ex.st, old: ex.st, vars: map[string]Val{}, where: rep.Pos}
			var mv []ModelVar
			for _, p := range ax.Params {
				t := env.typeFromString(p.Type)
				var x Term
				if p.Type == "int" || p.Type == "uint" {
					// lemma parameters of type int/uint are mathematical (unbounded) integers
					x = c.freshConst("l."+p.Name, SInt)
					if p.Type == "uint" {
						c.assume(T(SBool, "(>= %s 0)", x.S))
					}
				} else {
					x = c.freshConst("l."+p.Name, c.sortOf(t))
					c.assume(c.rangeFact(x, t))
				}
				env.vars[p.Name] = Val{T: x, Ty: t}
				mv = append(mv, ModelVar{Label: p.Name, Term: x})
			}
			g := env.eval(ax.Expr)
			ob := c.obligeNamed("holds", "lemma", token.Position{Filename: ax.File, Line: ax.Line}, "lemma "+ax.Name+": "+ax.Text, tTrue, g.T)
			ob.ModelVars = mv
		}()
		res.reports = append(res.reports, rep)
		if rep.Err != "" {
			res.errors = append(res.errors, rep.Name+": "+rep.Err)
			continue
		}
		res.obls = append(res.obls, c.obls...)
	}
}
