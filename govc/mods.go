package main

// Type-based modifies inference over the module's SSA.

import (
	"os"
	"fmt"
	"go/token"
	"go/types"
	"strings"

	"golang.org/x/tools/go/ssa"
)

type keyDesc struct {
	kind   byte // 'F' field, 'E' elem, 'B' box, 'M' map, 'G' global
	t      types.Type
	field  int
	global *ssa.Global
}

type modSet struct {
	descs map[string]keyDesc
	keys  map[string]bool // registered keys (valid for the ctx passed to modOf/instrMods)
	cells map[*ssa.Alloc]bool
	all   bool
	allocs bool
	declared []string
	big   bool // all is set only because the frame is large; descs is still exact
}

// keyNames lists the heap keys of the frame without registering them in a context.
func (m *modSet) keyNames() map[string]bool {
	out := map[string]bool{}
	for _, d := range m.descs {
		switch d.kind {
		case 'F':
			st := d.t.Underlying().(*types.Struct)
			out[fmt.Sprintf("F:%s#%d.%s", typeKey(d.t), d.field, st.Field(d.field).Name())] = true
		case 'E':
			out["E:"+typeKey(d.t)] = true
		case 'B':
			out["B:"+typeKey(d.t)] = true
		case 'M':
			for _, p := range []string{"MH:", "MV:", "ML:"} {
				out[p+typeKey(d.t)] = true
			}
		case 'G':
			out["G:"+d.global.Pkg.Pkg.Path()+"."+d.global.Name()] = true
		}
	}
	return out
}

// havocBig havocs the whole heap except the keys already known to the context that lie outside the frame.
func (ex *Exec) havocBig(m *modSet) {
	c := ex.c
	names := m.keyNames()
	keep := map[string]Term{}
	for k := range c.heapSorts {
		if !names[k] {
			keep[k] = c.heapGet(ex.st, k)
		}
	}
	c.heapHavocAll(ex.st)
	for k, t := range keep {
		ex.st.heaps[k] = t
	}
}

func newModSet() *modSet {
	return &modSet{descs: map[string]keyDesc{}, keys: map[string]bool{}, cells: map[*ssa.Alloc]bool{}}
}

func (m *modSet) addField(t types.Type, i int) {
	m.descs["F:"+typeKey(t)+"#"+itoa(i)] = keyDesc{kind: 'F', t: t, field: i}
}
func (m *modSet) addAllFields(t types.Type) {
	if isTimeTime(t) {
		m.addBox(t)
		return
	}
	if _, op := opaqueNamed(t); op {
		return
	}
	st, ok := t.Underlying().(*types.Struct)
	if !ok {
		return
	}
	for i := 0; i < st.NumFields(); i++ {
		m.addField(t, i)
	}
}
func (m *modSet) addElem(t types.Type)  { m.descs["E:"+typeKey(t)] = keyDesc{kind: 'E', t: t} }
func (m *modSet) addBox(t types.Type)   { m.descs["B:"+typeKey(t)] = keyDesc{kind: 'B', t: t} }
func (m *modSet) addMap(t *types.Map)   { m.descs["M:"+typeKey(t)] = keyDesc{kind: 'M', t: t} }
func (m *modSet) addMapVisited(t *types.Map) { m.descs["V:"+typeKey(t)] = keyDesc{kind: 'V', t: t} }
func (m *modSet) addGlobal(g *ssa.Global) { m.descs["G:"+g.String()] = keyDesc{kind: 'G', global: g} }

func itoa(i int) string {
	if i == 0 {
		return "0"
	}
	s := ""
	for i > 0 {
		s = string(rune('0'+i%10)) + s
		i /= 10
	}
	return s
}

func (m *modSet) union(o *modSet) {
	for k, d := range o.descs {
		m.descs[k] = d
	}
	if o.all {
		modWhy("mods.go:116")
		m.all = true
	}
	if o.allocs {
		m.allocs = true
	}
}

// register materialises the heap keys in a ctx.
func (m *modSet) register(c *Ctx) *modSet {
	m.keys = map[string]bool{}
	if len(m.descs) > 48 && !m.all {
		// A very large inferred frame is not materialised key by key (that would blow up the VC): the caller
		// havocs everything except the keys it already knows that are outside the frame (see havocBig).
		m.big = true
		modWhy("mods.go:130")
		m.all = true
		return m
	}
	for _, d := range m.descs {
		switch d.kind {
		case 'F':
			m.keys[c.keyField(d.t, d.field)] = true
		case 'E':
			m.keys[c.keyElem(d.t)] = true
		case 'B':
			m.keys[c.keyBox(d.t)] = true
		case 'M':
			mt := d.t.Underlying().(*types.Map)
			m.keys[c.keyMapHas(mt)] = true
			m.keys[c.keyMapVal(mt)] = true
			m.keys[c.keyMapLen(mt)] = true
		case 'V':
			m.keys[c.keyMapVisited(d.t.Underlying().(*types.Map))] = true
		case 'G':
			m.keys[c.keyGlobal(d.global)] = true
		}
	}
	return m
}

// storeTargets adds what a store through addr may modify.
func storeTargets(m *modSet, addr ssa.Value, cellOK func(*ssa.Alloc) bool) {
	// walk to the root
	v := addr
	for {
		switch x := v.(type) {
		case *ssa.Alloc:
			if cellOK != nil && cellOK(x) {
				m.cells[x] = true
				return
			}
			// heap-allocated local: modifies its own fresh object only; type-based keys
			t := x.Type().(*types.Pointer).Elem()
			addPointee(m, t)
			return
		case *ssa.FieldAddr:
			base := x.X
			if isPlainPointer(base) {
				st := base.Type().Underlying().(*types.Pointer).Elem()
				m.addField(st, x.Field)
				return
			}
			v = base
			continue
		case *ssa.IndexAddr:
			switch u := x.X.Type().Underlying().(type) {
			case *types.Slice:
				m.addElem(u.Elem())
				return
			case *types.Pointer:
				if isPlainPointer(x.X) {
					arr := u.Elem().Underlying().(*types.Array)
					m.addElem(arr.Elem())
					return
				}
				v = x.X
				continue
			}
			modWhy("mods.go:193")
			m.all = true
			return
		case *ssa.Global:
			m.addGlobal(x)
			return
		default:
			pt, ok := v.Type().Underlying().(*types.Pointer)
			if !ok {
				modWhy("mods.go:201")
				m.all = true
				return
			}
			addPointee(m, pt.Elem())
			return
		}
	}
}

func addPointee(m *modSet, t types.Type) {
	if isTimeTime(t) {
		m.addBox(t)
		return
	}
	switch u := t.Underlying().(type) {
	case *types.Struct:
		m.addAllFields(t)
	case *types.Array:
		m.addElem(u.Elem())
	default:
		m.addBox(t)
	}
}

// isPlainPointer: the value is a first-class pointer (not an interior address computed here).
func isPlainPointer(v ssa.Value) bool {
	switch v.(type) {
	case *ssa.FieldAddr, *ssa.IndexAddr, *ssa.Global:
		return false
	case *ssa.Alloc:
		return false
	}
	return true
}

// instrMods: what one instruction of the function being verified may modify.
func (w *World) instrMods(c *Ctx, in ssa.Instruction, ex *Exec) *modSet {
	m := newModSet()
	cellOK := func(a *ssa.Alloc) bool { return ex != nil && ex.cells[a] }
	switch in := in.(type) {
	case *ssa.Store:
		storeTargets(m, in.Addr, cellOK)
	case *ssa.MapUpdate:
		m.addMap(in.Map.Type().Underlying().(*types.Map))
	case *ssa.Next:
		if !in.IsString {
			if mt, ok := in.Iter.(*ssa.Range).X.Type().Underlying().(*types.Map); ok {
				m.addMapVisited(mt)
			}
		}
	case *ssa.Range:
		if mt, ok := in.X.Type().Underlying().(*types.Map); ok {
			m.addMapVisited(mt)
		}
	case *ssa.Alloc:
		if ex != nil && ex.cells[in] {
			m.cells[in] = true
		} else {
			m.allocs = true
			addPointee(m, in.Type().(*types.Pointer).Elem())
		}
	case *ssa.MakeSlice:
		m.allocs = true
		m.addElem(in.Type().Underlying().(*types.Slice).Elem())
	case *ssa.MakeMap:
		m.allocs = true
		m.addMap(in.Type().Underlying().(*types.Map))
	case *ssa.MakeClosure, *ssa.MakeChan:
		m.allocs = true
	case *ssa.MakeInterface:
		m.allocs = true
	case *ssa.Convert:
		if isByteSlice(in.Type()) && isString(in.X.Type()) {
			m.allocs = true
			m.addElem(types.Typ[types.Uint8])
		}
	case *ssa.Call:
		w.callMods(c, m, &in.Call, ex, 0, map[*ssa.Function]bool{})
	case *ssa.Defer:
		w.callMods(c, m, &in.Call, ex, 0, map[*ssa.Function]bool{})
	case *ssa.Go, *ssa.Send:
	}
	return m.register(c)
}

func (w *World) callMods(c *Ctx, m *modSet, cc *ssa.CallCommon, ex *Exec, depth int, stack map[*ssa.Function]bool) {
	if b, ok := cc.Value.(*ssa.Builtin); ok {
		switch b.Name() {
		case "append":
			m.allocs = true
			m.addElem(cc.Args[0].Type().Underlying().(*types.Slice).Elem())
		case "copy":
			m.addElem(cc.Args[0].Type().Underlying().(*types.Slice).Elem())
		case "delete", "clear":
			if mt, ok := cc.Args[0].Type().Underlying().(*types.Map); ok {
				m.addMap(mt)
			}
		}
		return
	}
	m.allocs = true
	if cc.IsInvoke() {
		if _, ok := w.Stubs[cc.Method.FullName()]; ok {
			ct := w.Stubs[cc.Method.FullName()]
			w.contractMods(m, ct, cc.Args, nil)
			return
		}
		if isLogMethod(cc.Method) || (cc.Method.Name() == "Error" && cc.Method.Type().(*types.Signature).Params().Len() == 0) {
			return
		}
		impls := w.implementations(cc.Value.Type(), cc.Method)
		if len(impls) == 0 {
			externalArgMods(m, cc.Args)
			return
		}
		for _, f := range impls {
			m.union(w.modOfRec(f, depth+1, stack))
		}
		return
	}
	callee := cc.StaticCallee()
	if callee == nil {
		if mc, ok := cc.Value.(*ssa.MakeClosure); ok {
			callee = mc.Fn.(*ssa.Function)
		} else if ex != nil {
			if fv, ok := ex.vals[cc.Value]; ok && fv.Fn != nil {
				callee = fv.Fn
			}
		}
	}
	if callee == nil && w.isCancelCall(cc.Value) {
		return
	}
	if callee == nil {
		modWhy("mods.go:335")
		m.all = true
		return
	}
	if isMutexOp(callee) {
		return
	}
	if ct, _ := w.contractFor(callee); ct != nil && !ct.Inline {
		w.contractMods(m, ct, cc.Args, callee)
		return
	}
	if isPureExternal(callee) || isLogFunc(callee) {
		if isPureExternal(callee) && hasCallbackArg(callee, nil) {
			// the library function runs the function value it is given: when every function-typed argument is a
			// statically known function (closure literal, named function) the effect is what that function may
			// modify (any number of times); otherwise everything
			for _, a := range cc.Args {
				if _, isFn := a.Type().Underlying().(*types.Signature); !isFn {
					continue
				}
				var fn *ssa.Function
				for {
					ct, ok := a.(*ssa.ChangeType)
					if !ok {
						break
					}
					a = ct.X // func literal converted to a named function type (fs.WalkDirFunc)
				}
				switch v := a.(type) {
				case *ssa.MakeClosure:
					fn, _ = v.Fn.(*ssa.Function)
				case *ssa.Function:
					fn = v
				}
				if fn != nil && len(fn.Blocks) == 0 {
					if rp := rootParent(fn); rp.Pkg != nil && strings.HasPrefix(funcPkgPath(fn), modulePath) {
						rp.Pkg.Build() // SSA of in-module dependencies is built on demand
					}
				}
				if fn == nil || len(fn.Blocks) == 0 {
					modWhy(fmt.Sprintf("mods.go:362 callee=%s arg=%T %v", callee, a, a))
					m.all = true
					return
				}
				m.union(w.modOfRec(fn, depth+1, stack))
			}
		}
		return
	}
	switch calleeOriginName(callee) {
	case "sort.Slice", "sort.SliceStable", "sort.Strings", "sort.Ints", "slices.Sort", "slices.SortFunc", "slices.SortStableFunc":
		if len(cc.Args) > 0 {
			var sv ssa.Value = cc.Args[0]
			if mi, ok := sv.(*ssa.MakeInterface); ok {
				sv = mi.X
			}
			if sl, ok := sv.Type().Underlying().(*types.Slice); ok {
				m.addElem(sl.Elem())
				return
			}
		}
	}
	pp := funcPkgPath(callee)
	if strings.HasPrefix(pp, modulePath) && len(callee.Blocks) == 0 && callee.Pkg != nil {
		callee.Pkg.Build()
	}
	if !strings.HasPrefix(pp, modulePath) || len(callee.Blocks) == 0 {
		externalArgMods(m, cc.Args)
		return
	}
	m.union(w.modOfRec(callee, depth+1, stack))
}

// contractMods: frame declared by a contract, approximated by types.
func (w *World) contractMods(m *modSet, ct *Contract, args []ssa.Value, callee *ssa.Function) {
	switch {
	case ct.Pure:
		return
	case ct.HasMod:
		for _, mod := range ct.Modifies {
			switch {
			case mod == "heap" || mod == "all":
				modWhy("mods.go:403")
				m.all = true
			case mod == "alloc":
			default:
				// resolve by argument types: conservative — everything reachable from pointer args by one level
				m.declared = append(m.declared, mod)
			}
		}
		if len(m.declared) > 0 {
			// type-level approximation: fields/elements of the argument types
			for _, a := range args {
				shallowArgMods(m, a.Type())
			}
			if callee != nil && callee.Signature.Recv() == nil && len(args) == 0 {
				modWhy("mods.go:416")
				m.all = true
			}
		}
	case ct.Extern:
		switch ct.Havoc {
		case "none":
		case "all":
			modWhy("mods.go:423")
			m.all = true
		default:
			externalArgMods(m, args)
		}
	default:
		if callee != nil && len(callee.Blocks) > 0 {
			m.union(w.modOfRec(callee, 1, map[*ssa.Function]bool{}))
		} else {
			externalArgMods(m, args)
		}
	}
}

func shallowArgMods(m *modSet, t types.Type) {
	switch u := t.Underlying().(type) {
	case *types.Pointer:
		addPointee(m, u.Elem())
	case *types.Slice:
		m.addElem(u.Elem())
	case *types.Map:
		m.addMap(u)
	}
}

func externalArgMods(m *modSet, args []ssa.Value) {
	seen := map[string]bool{}
	var visit func(t types.Type, depth int)
	visit = func(t types.Type, depth int) {
		k := typeKey(t)
		if seen[k] || depth > 6 {
			return
		}
		seen[k] = true
		if isTimeTime(t) {
			return
		}
		if _, op := opaqueNamed(t); op {
			return
		}
		switch u := t.Underlying().(type) {
		case *types.Pointer:
			addPointee(m, u.Elem())
			if st, ok := u.Elem().Underlying().(*types.Struct); ok && !isTimeTime(u.Elem()) {
				for i := 0; i < st.NumFields(); i++ {
					visit(st.Field(i).Type(), depth+1)
				}
			} else {
				visit(u.Elem(), depth+1)
			}
		case *types.Slice:
			m.addElem(u.Elem())
			visit(u.Elem(), depth+1)
		case *types.Map:
			m.addMap(u)
			visit(u.Elem(), depth+1)
		case *types.Struct:
			for i := 0; i < u.NumFields(); i++ {
				visit(u.Field(i).Type(), depth+1)
			}
		case *types.Array:
			visit(u.Elem(), depth+1)
		case *types.Interface, *types.Signature:
			modWhy("mods.go:485")
			m.all = true
		}
	}
	for _, a := range args {
		visit(a.Type(), 0)
	}
}

// modOf: transitive modifies set of an in-module function (cached, type-level).
func (w *World) modOf(c *Ctx, fn *ssa.Function) *modSet {
	m := w.modOfRec(fn, 0, map[*ssa.Function]bool{})
	r := newModSet()
	r.union(m)
	return r.register(c)
}

func (w *World) modOfRec(fn *ssa.Function, depth int, stack map[*ssa.Function]bool) *modSet {
	if m, ok := w.modCache[fn]; ok {
		return m
	}
	m := newModSet()
	if stack[fn] {
		return m // recursion: the fixpoint is reached by the outer frame (approximation: union of one unfolding)
	}
	if depth > 12 {
		modWhy("mods.go:510")
		m.all = true
		return m
	}
	stack[fn] = true
	defer delete(stack, fn)
	if fn.Pkg != nil {
		fn.Pkg.Build()
	}
	for _, b := range fn.Blocks {
		for _, in := range b.Instrs {
			switch in := in.(type) {
			case *ssa.Store:
				storeTargets(m, in.Addr, func(a *ssa.Alloc) bool { return isCellAlloc(a) })
			case *ssa.MapUpdate:
				m.addMap(in.Map.Type().Underlying().(*types.Map))
			case *ssa.Call:
				w.callMods(nil, m, &in.Call, nil, depth, stack)
			case *ssa.Defer:
				w.callMods(nil, m, &in.Call, nil, depth, stack)
			case *ssa.Go:
				// asynchronous; skipped (see trusted base)
			case *ssa.MakeClosure:
				// the closure may run later inside this call tree
				if f, ok := in.Fn.(*ssa.Function); ok {
					m.union(w.modOfRec(f, depth+1, stack))
				}
			}
		}
	}
	// stores into cells of this function are invisible to callers
	m.cells = map[*ssa.Alloc]bool{}
	if len(stack) == 1 {
		w.modCache[fn] = m
	}
	return m
}

// implementations of an interface method inside the module.
func (w *World) implementations(recvType types.Type, m *types.Func) []*ssa.Function {
	iface, ok := recvType.Underlying().(*types.Interface)
	if !ok {
		return nil
	}
	key := typeKey(recvType) + "." + m.Name()
	if w.implCache == nil {
		w.implCache = map[string][]*ssa.Function{}
	}
	if r, ok := w.implCache[key]; ok {
		return r
	}
	var out []*ssa.Function
	for path, sp := range w.SSAPkgs {
		if !strings.HasPrefix(path, modulePath) {
			continue
		}
		for _, mem := range sp.Members {
			tn, ok := mem.(*ssa.Type)
			if !ok {
				continue
			}
			if _, isIface := tn.Type().Underlying().(*types.Interface); isIface {
				continue
			}
			for _, t := range []types.Type{tn.Type(), types.NewPointer(tn.Type())} {
				if types.Implements(t, iface) {
					sel := w.Prog.MethodSets.MethodSet(t).Lookup(m.Pkg(), m.Name())
					if sel != nil {
						if f := w.Prog.MethodValue(sel); f != nil {
							out = append(out, f)
						}
					}
					break
				}
			}
		}
	}
	w.implCache[key] = out
	return out
}

var _ = token.NoPos


func modWhy(where string) {
	if os.Getenv("GOVC_MODWHY") != "" {
		fmt.Fprintln(os.Stderr, "frame=everything at", where)
	}
}
