package main

// Evaluation of contract expressions (Go expression syntax + spec builtins) into SMT terms.

import (
	"os"
	"fmt"
	"go/ast"
	"go/constant"
	"go/token"
	"go/types"
	"sort"
	"strconv"
	"strings"

	"golang.org/x/tools/go/ssa"
)

type Env struct {
	ex     *Exec
	st     *State
	old    *State
	vars   map[string]Val
	phi    map[*ssa.Phi]Term
	loop   *loopInfo
	pkg    *types.Package
	locals bool // identifiers may resolve to local cells of ex.fn
	ct     *Contract
	defs   map[string]string // instantiated local defs: name -> SMT function symbol
	defSt  *State
	where  string
	cellSt *State // if set: state used for local variables (heapold)
}

func (e *Env) with(name string, v Val) *Env {
	n := *e
	n.vars = make(map[string]Val, len(e.vars)+1)
	for k, x := range e.vars {
		n.vars[k] = x
	}
	n.vars[name] = v
	return &n
}

func (e *Env) inState(st *State) *Env {
	n := *e
	n.st = st
	return &n
}

// contractEnv builds the environment of the function's own contract at a program point.
func (ex *Exec) contractEnv(st, old *State) *Env {
	env := &Env{ex: ex, st: st, old: old, vars: map[string]Val{}, pkg: ex.fn.Pkg.Pkg, locals: true, ct: ex.ct, defs: ex.defInst(), defSt: ex.entry}
	for k, v := range ex.params {
		env.vars["old:"+k] = v
	}
	return env
}

func (ex *Exec) defInst() map[string]string {
	root := ex
	for root.parent != nil {
		root = root.parent
	}
	if root.defVals == nil {
		root.defVals = map[string]Term{}
	}
	if root.defMap == nil {
		root.defMap = map[string]string{}
	}
	return root.defMap
}

func (ex *Exec) evalBool(env *Env, cl *Clause) (out Term) {
	env.where = fmt.Sprintf("%s:%d", cl.File, cl.Line)
	// A clause that has to be PROVED (ensures / assert-call / invariant) and names a local variable or a call that the
	// function no longer has cannot be established for the current code: it becomes an unprovable goal (a fresh
	// unconstrained boolean), i.e. a failed named obligation, instead of an engine error. Assumed clauses
	// (requires / domain) that do not bind stay engine errors.
	if cl.Kind == "ensures" || cl.Kind == "assert-call" || cl.Kind == "invariant" {
		defer func() {
			if r := recover(); r != nil {
				if u, ok := r.(unsupportedErr); ok && (strings.Contains(u.msg, "unknown identifier") || strings.Contains(u.msg, "no such call seen")) {
					ex.c.note("clause %q does not bind to the current code (%s): reported as an unprovable obligation", cl.Text, u.msg)
					out = ex.c.freshConst("unbound", SBool)
					return
				}
				panic(r)
			}
		}()
	}
	v := env.eval(cl.Expr)
	if v.T.Sort != SBool {
		panic(unsupported("%s: clause %q is not boolean", env.where, cl.Text))
	}
	return v.T
}

func (e *Env) fail(format string, args ...any) unsupportedErr {
	return unsupported("%s: %s", e.where, fmt.Sprintf(format, args...))
}

func (e *Env) c() *Ctx { return e.ex.c }

func (e *Env) eval(x ast.Expr) Val {
	c := e.c()
	boolT := types.Typ[types.Bool]
	switch x := x.(type) {
	case *ast.ParenExpr:
		return e.eval(x.X)
	case *ast.BasicLit:
		switch x.Kind {
		case token.INT, token.FLOAT:
			return Val{Const: constant.MakeFromLiteral(x.Value, x.Kind, 0)}
		case token.CHAR:
			r, _, _, err := strconv.UnquoteChar(x.Value[1:len(x.Value)-1], '\'')
			if err != nil {
				panic(e.fail("bad char literal %s", x.Value))
			}
			return Val{Const: constant.MakeInt64(int64(r))}
		case token.STRING:
			s, err := strconv.Unquote(x.Value)
			if err != nil {
				panic(e.fail("bad string literal %s", x.Value))
			}
			return Val{T: c.strLit(s), Ty: types.Typ[types.String]}
		}
	case *ast.Ident:
		return e.ident(x.Name)
	case *ast.UnaryExpr:
		v := e.eval(x.X)
		switch x.Op {
		case token.NOT:
			return Val{T: Not(v.T), Ty: boolT}
		case token.SUB:
			if v.Const != nil {
				return Val{Const: constant.UnaryOp(token.SUB, v.Const, 0)}
			}
			zero := Val{Const: constant.MakeInt64(0)}
			return e.ex.binop(token.SUB, zero, v, v.Ty, token.NoPos, true)
		case token.ADD:
			return v
		}
	case *ast.BinaryExpr:
		switch x.Op {
		case token.LAND:
			return Val{T: And(e.eval(x.X).T, e.eval(x.Y).T), Ty: boolT}
		case token.LOR:
			return Val{T: Or(e.eval(x.X).T, e.eval(x.Y).T), Ty: boolT}
		}
		a, b := e.eval(x.X), e.eval(x.Y)
		if a.Const != nil && b.Const != nil {
			switch x.Op {
			case token.EQL, token.NEQ, token.LSS, token.LEQ, token.GTR, token.GEQ:
				if constant.Compare(a.Const, x.Op, b.Const) {
					return Val{T: tTrue, Ty: boolT}
				}
				return Val{T: tFalse, Ty: boolT}
			case token.SHL, token.SHR:
				n, _ := constant.Uint64Val(b.Const)
				return Val{Const: constant.Shift(a.Const, x.Op, uint(n))}
			case token.QUO:
				return Val{Const: constant.BinaryOp(constant.ToInt(a.Const), token.QUO_ASSIGN, constant.ToInt(b.Const))}
			}
			return Val{Const: constant.BinaryOp(a.Const, x.Op, b.Const)}
		}
		// nil comparisons with slices / refs
		if a.Const == nil && b.Const == nil && a.T.S != "" && b.T.S != "" && isInteger(a.Ty) && isInteger(b.Ty) && c.Mode == ArithInt {
			// mixed integer types are fine on the specification side (mathematical integers)
			b.Ty = a.Ty
		}
		var rt types.Type
		if a.Ty != nil {
			rt = a.Ty
		} else {
			rt = b.Ty
		}
		switch x.Op {
		case token.EQL, token.NEQ, token.LSS, token.LEQ, token.GTR, token.GEQ:
			rt = nil
		}
		return e.ex.binop(x.Op, a, b, rt, token.NoPos, true)
	case *ast.SelectorExpr:
		return e.selector(x)
	case *ast.StarExpr:
		v := e.eval(x.X)
		pt, ok := v.Ty.Underlying().(*types.Pointer)
		if !ok {
			panic(e.fail("dereference of non-pointer"))
		}
		l := e.ex.locOfRef(v.T, pt.Elem())
		return Val{T: e.ex.loadLoc(e.st, l), Ty: pt.Elem()}
	case *ast.TypeAssertExpr:
		v := e.eval(x.X)
		t := e.resolveType(x.Type)
		if t == nil {
			panic(e.fail("unknown type in type assertion"))
		}
		switch t.Underlying().(type) {
		case *types.Pointer, *types.Map, *types.Chan, *types.Signature, *types.Interface:
			return Val{T: v.T, Ty: t}
		}
		s := c.sortOf(t)
		return Val{T: T(s, "(%s %s)", e.ex.unboxFn(s), v.T.S), Ty: t}
	case *ast.IndexExpr:
		return e.index(x)
	case *ast.SliceExpr:
		return e.sliceExpr(x)
	case *ast.CallExpr:
		return e.call(x)
	}
	panic(e.fail("unsupported expression %T", x))
}

func (e *Env) ident(name string) Val {
	c := e.c()
	switch name {
	case "true":
		return Val{T: tTrue, Ty: types.Typ[types.Bool]}
	case "false":
		return Val{T: tFalse, Ty: types.Typ[types.Bool]}
	case "nil":
		return Val{Const: constant.MakeUnknown(), Ty: types.Typ[types.UntypedNil], T: Term{"0", SRef}}
	case "_i":
		if e.loop == nil {
			panic(e.fail("_i outside a loop invariant"))
		}
		a := rangeIndexAlloc(e.loop)
		if a == nil {
			panic(e.fail("_i: loop %d is not a range-index loop", e.loop.ordinal))
		}
		cur := e.ex.loadLoc(e.st, &Loc{Kind: LCell, Cell: a, Ty: types.Typ[types.Int]})
		return Val{T: e.ex.idxAdd(cur, c.idxLit(1)), Ty: types.Typ[types.Int]}
	}
	if v, ok := e.vars[name]; ok {
		return v
	}
	if e.locals {
		if a := e.ex.localByNameAt(name, e.scopePos()); a != nil {
			t := a.Type().(*types.Pointer).Elem()
			cst := e.st
			if e.cellSt != nil {
				cst = e.cellSt // heapold(): locals keep their current values while the heap is the entry heap
			}
			if e.ex.cells[a] {
				return Val{T: e.ex.loadLoc(cst, &Loc{Kind: LCell, Cell: a, Ty: t}), Ty: t}
			}
			// escaping local: its reference is the Alloc's value
			if v, ok := e.ex.vals[a]; ok && v.Loc == nil {
				return Val{T: e.ex.loadLoc(cst, e.ex.locOfRef(v.T, t)), Ty: t}
			}
		}
	}
	if v, ok := e.vars["old:"+name]; ok {
		return v
	}
	// caller_<p>: parameter p of the function under contract (also inside local definitions)
	if rest, ok := strings.CutPrefix(name, "caller_"); ok {
		root := e.ex
		for root.parent != nil {
			root = root.parent
		}
		if v, ok := root.params[rest]; ok {
			return v
		}
	}
	// captured variable of a closure under contract: its current value
	if e.ex.fn != nil {
		for _, fv := range e.ex.fn.FreeVars {
			if fv.Name() == name {
				if x, ok := e.ex.vals[fv]; ok {
					t := fv.Type().(*types.Pointer).Elem()
					return Val{T: e.ex.loadLoc(e.st, e.ex.locOfRef(x.T, t)), Ty: t}
				}
			}
		}
	}
	// package scope
	if e.pkg != nil {
		if obj := e.pkg.Scope().Lookup(name); obj != nil {
			return e.object(obj)
		}
	}
	if obj := types.Universe.Lookup(name); obj != nil {
		if k, ok := obj.(*types.Const); ok {
			return Val{Const: k.Val()}
		}
	}
	panic(e.fail("unknown identifier %q", name))
}

func rangeIndexAlloc(li *loopInfo) *ssa.Alloc {
	// the hidden index of a range-over-slice loop is incremented in the header block
	for _, in := range li.header.Instrs {
		if st, ok := in.(*ssa.Store); ok {
			if a, ok := st.Addr.(*ssa.Alloc); ok && a.Comment == "rangeindex" {
				return a
			}
		}
	}
	return nil
}

func (ex *Exec) localByName(name string) *ssa.Alloc {
	return ex.localByNameAt(name, token.NoPos)
}

// localByNameAt resolves a local variable name as Go's scoping would at position pos (several locals of
// a function may share a name); without a position, or when the scopes do not know the name there, the
// first declaration wins.
func (ex *Exec) localByNameAt(name string, pos token.Pos) *ssa.Alloc {
	var best *ssa.Alloc
	if ex.fn == nil {
		return nil
	}
	var want token.Pos
	if pos.IsValid() && ex.fn.Pkg != nil && ex.fn.Pkg.Pkg != nil {
		if sc := ex.fn.Pkg.Pkg.Scope().Innermost(pos); sc != nil {
			if _, obj := sc.LookupParent(name, pos); obj != nil {
				want = obj.Pos()
			}
		}
	}
	for _, b := range ex.fn.Blocks {
		for _, in := range b.Instrs {
			if a, ok := in.(*ssa.Alloc); ok && a.Comment == name {
				if want.IsValid() && a.Pos() == want {
					return a
				}
				if best == nil {
					best = a
				}
			}
		}
	}
	return best
}

// scopePos is the source position whose scope a contract clause is read in: inside the loop for a loop
// invariant, the end of the function body otherwise.
func (e *Env) scopePos() token.Pos {
	if e.ex == nil || e.ex.fn == nil {
		return token.NoPos
	}
	if e.loop != nil {
		for _, in := range e.loop.header.Instrs {
			if p := in.Pos(); p.IsValid() {
				return p
			}
		}
		return token.NoPos
	}
	if syn := e.ex.fn.Syntax(); syn != nil {
		if fd, ok := syn.(*ast.FuncDecl); ok && fd.Body != nil {
			return fd.Body.Rbrace
		}
		if fl, ok := syn.(*ast.FuncLit); ok {
			return fl.Body.Rbrace
		}
	}
	return token.NoPos
}

func (e *Env) object(obj types.Object) Val {
	c := e.c()
	switch o := obj.(type) {
	case *types.Const:
		if b, ok := o.Type().Underlying().(*types.Basic); ok && b.Info()&types.IsUntyped == 0 {
			return c.materialise(Val{Const: o.Val()}, o.Type())
		}
		return Val{Const: o.Val()}
	case *types.Var:
		sp := e.ex.w.SSAPkgs[o.Pkg().Path()]
		if sp != nil {
			if g, ok := sp.Members[o.Name()].(*ssa.Global); ok {
				l := &Loc{Kind: LGlobal, Global: g, Ty: o.Type()}
				return Val{T: e.ex.loadLoc(e.st, l), Ty: o.Type()}
			}
		}
	}
	panic(e.fail("unsupported object %s", obj))
}

func (e *Env) selector(x *ast.SelectorExpr) Val {
	// package-qualified
	if id, ok := x.X.(*ast.Ident); ok {
		if _, isVar := e.vars[id.Name]; !isVar && (e.ex.localByName(id.Name) == nil || !e.locals) {
			if _, isOld := e.vars["old:"+id.Name]; !isOld {
				if p := e.importedPkg(id.Name); p != nil {
					obj := p.Scope().Lookup(x.Sel.Name)
					if obj == nil {
						panic(e.fail("unknown %s.%s", id.Name, x.Sel.Name))
					}
					return e.object(obj)
				}
			}
		}
	}
	v := e.eval(x.X)
	return e.fieldOf(v, x.Sel.Name)
}

func (e *Env) fieldOf(v Val, name string) Val {
	c := e.c()
	if isTimeTime(v.Ty) {
		switch name {
		case "ns":
			return Val{T: T(SInt, "(t.ns %s)", v.T.S), Ty: types.Typ[types.Int64]}
		case "loc":
			return Val{T: T(SInt, "(t.loc %s)", v.T.S), Ty: types.Typ[types.Int64]}
		}
	}
	obj, index, _ := types.LookupFieldOrMethod(v.Ty, true, e.pkgOrOwner(v.Ty), name)
	fld, ok := obj.(*types.Var)
	if !ok || fld == nil {
		panic(e.fail("no field %q in %s", name, v.Ty))
	}
	cur := v
	for _, i := range index {
		if pt, isPtr := cur.Ty.Underlying().(*types.Pointer); isPtr {
			st := pt.Elem()
			s := st.Underlying().(*types.Struct)
			l := &Loc{Kind: LField, Ref: cur.T, StructT: st, Field: i, Ty: s.Field(i).Type()}
			cur = Val{T: e.ex.loadLoc(e.st, l), Ty: s.Field(i).Type()}
		} else {
			s := cur.Ty.Underlying().(*types.Struct)
			cur = Val{T: c.structField(cur.T, cur.Ty, i), Ty: s.Field(i).Type()}
		}
	}
	return cur
}

func (e *Env) pkgOrOwner(t types.Type) *types.Package {
	if p, ok := t.Underlying().(*types.Pointer); ok {
		t = p.Elem()
	}
	if n, ok := t.(*types.Named); ok && n.Obj().Pkg() != nil {
		return n.Obj().Pkg()
	}
	return e.pkg
}

func (e *Env) importedPkg(name string) *types.Package {
	if e.pkg != nil {
		for _, imp := range e.pkg.Imports() {
			if imp.Name() == name {
				return imp
			}
		}
	}
	// any loaded package with that name (for stubs/specs without a home package)
	var found *types.Package
	better := func(a, b string) bool {
		// packages of the module first, then the shortest path
		am, bm := strings.HasPrefix(a, modulePath), strings.HasPrefix(b, modulePath)
		if am != bm {
			return am
		}
		return len(a) < len(b)
	}
	for path, p := range e.ex.w.Pkgs {
		if p.Types != nil && p.Types.Name() == name {
			if found == nil || better(path, found.Path()) {
				found = p.Types
			}
		}
	}
	return found
}

func (e *Env) index(x *ast.IndexExpr) Val {
	c := e.c()
	v := e.eval(x.X)
	i := e.eval(x.Index)
	switch u := v.Ty.Underlying().(type) {
	case *types.Slice:
		idx := e.asIdx(i)
		k := c.keyElem(u.Elem())
		return Val{T: c.elemAt(k, c.heapGet(e.st, k), v.T, idx), Ty: u.Elem()}
	case *types.Array:
		return Val{T: Select(v.T, e.asIdx(i), c.sortOf(u.Elem())), Ty: u.Elem()}
	case *types.Map:
		k := e.ex.coerce(i, u.Key()).T
		has := And(Not(Eq(v.T, IntLit("0"))), e.ex.mapHas(e.st, u, v.T, k))
		return Val{T: Ite(has, e.ex.mapVal(e.st, u, v.T, k), c.zero(u.Elem())), Ty: u.Elem()}
	case *types.Basic:
		if isString(v.Ty) {
			return Val{T: T(c.intSort(8, false), "(str.at %s %s)", v.T.S, e.asIdx(i).S), Ty: types.Typ[types.Uint8]}
		}
	case *types.Pointer:
		if arr, ok := u.Elem().Underlying().(*types.Array); ok {
			l := &Loc{Kind: LElem, Ref: v.T, ElemT: arr.Elem(), Idx: e.asIdx(i), Ty: arr.Elem()}
			return Val{T: e.ex.loadLoc(e.st, l), Ty: arr.Elem()}
		}
	}
	panic(e.fail("cannot index %s", v.Ty))
}

func (e *Env) asIdx(v Val) Term {
	if v.Const != nil {
		v = e.c().materialise(v, types.Typ[types.Int])
	}
	return e.ex.asIdx(v)
}

func (e *Env) sliceExpr(x *ast.SliceExpr) Val {
	c := e.c()
	v := e.eval(x.X)
	zero := c.idxLit(0)
	opt := func(a ast.Expr, def Term) Term {
		if a == nil {
			return def
		}
		return e.asIdx(e.eval(a))
	}
	if isString(v.Ty) {
		ln := T(c.idxSort(), "(str.len %s)", v.T.S)
		return Val{T: e.ex.strSubstr(v.T, opt(x.Low, zero), opt(x.High, ln)), Ty: v.Ty}
	}
	if _, ok := v.Ty.Underlying().(*types.Slice); ok {
		lo := opt(x.Low, zero)
		hi := opt(x.High, e.ex.sliceLen(v.T))
		return Val{T: e.ex.mkSlice(sliceArr(v.T), e.ex.idxAdd(e.ex.sliceOff(v.T), lo), e.ex.idxSub(hi, lo), e.ex.idxSub(e.ex.sliceCap(v.T), lo)), Ty: v.Ty}
	}
	panic(e.fail("cannot slice %s", v.Ty))
}

func (e *Env) lenOf(v Val) Val {
	c := e.c()
	intT := types.Typ[types.Int]
	switch u := v.Ty.Underlying().(type) {
	case *types.Slice:
		return Val{T: e.ex.sliceLen(v.T), Ty: intT}
	case *types.Basic:
		if isString(v.Ty) {
			return Val{T: T(c.idxSort(), "(str.len %s)", v.T.S), Ty: intT}
		}
	case *types.Array:
		return Val{T: c.idxLit(u.Len()), Ty: intT}
	case *types.Map:
		return Val{T: Ite(Eq(v.T, IntLit("0")), c.idxLit(0), e.ex.mapLen(e.st, u, v.T)), Ty: intT}
	case *types.Pointer:
		if arr, ok := u.Elem().Underlying().(*types.Array); ok {
			return Val{T: c.idxLit(arr.Len()), Ty: intT}
		}
	}
	panic(e.fail("len of %s", v.Ty))
}

// resolveType parses a Go type expression used in contracts/specs.
func (e *Env) resolveType(x ast.Expr) types.Type {
	switch x := x.(type) {
	case *ast.Ident:
		if obj := types.Universe.Lookup(x.Name); obj != nil {
			if tn, ok := obj.(*types.TypeName); ok {
				return tn.Type()
			}
		}
		if e.pkg != nil {
			if obj := e.pkg.Scope().Lookup(x.Name); obj != nil {
				if tn, ok := obj.(*types.TypeName); ok {
					return tn.Type()
				}
			}
		}
	case *ast.SelectorExpr:
		if id, ok := x.X.(*ast.Ident); ok {
			if p := e.importedPkg(id.Name); p != nil {
				if tn, ok := p.Scope().Lookup(x.Sel.Name).(*types.TypeName); ok {
					return tn.Type()
				}
			}
		}
	case *ast.StarExpr:
		if t := e.resolveType(x.X); t != nil {
			return types.NewPointer(t)
		}
	case *ast.ArrayType:
		if x.Len == nil {
			if t := e.resolveType(x.Elt); t != nil {
				return types.NewSlice(t)
			}
		}
	case *ast.ParenExpr:
		return e.resolveType(x.X)
	case *ast.MapType:
		k, v := e.resolveType(x.Key), e.resolveType(x.Value)
		if k != nil && v != nil {
			return types.NewMap(k, v)
		}
	}
	return nil
}

func (e *Env) typeFromString(s string) types.Type {
	x, err := parseTypeExpr(s)
	if err != nil {
		panic(e.fail("bad type %q: %v", s, err))
	}
	t := e.resolveType(x)
	if t == nil {
		panic(e.fail("unknown type %q", s))
	}
	return t
}

func (e *Env) call(x *ast.CallExpr) Val {
	c := e.c()
	boolT := types.Typ[types.Bool]
	intT := types.Typ[types.Int]
	// conversions
	if t := e.resolveType(x.Fun); t != nil && len(x.Args) == 1 {
		v := e.eval(x.Args[0])
		if v.Const != nil {
			return c.materialise(v, t)
		}
		if isInteger(t) && isInteger(v.Ty) {
			return c.convertInt(v, t, true)
		}
		if c.sortOf(t) == v.T.Sort {
			return Val{T: v.T, Ty: t}
		}
		if isString(t) && isByteSlice(v.Ty) {
			return Val{T: e.ex.stringOfBytes(e.st, v.T), Ty: t}
		}
		if _, isStruct := t.Underlying().(*types.Struct); isStruct {
			return e.ex.coerce(v, t)
		}
		panic(e.fail("unsupported conversion to %s", t))
	}
	name := ""
	switch f := x.Fun.(type) {
	case *ast.Ident:
		name = f.Name
	case *ast.SelectorExpr:
		// method call on a value:  x.Method(args)  — only pure contract functions
		return e.methodCall(f, x.Args)
	}
	switch name {
	case "old":
		if e.old == nil {
			panic(e.fail("old() not available here"))
		}
		n := e.inState(e.old)
		n.locals = false
		return n.eval(x.Args[0])
	case "len":
		return e.lenOf(e.eval(x.Args[0]))
	case "cap":
		v := e.eval(x.Args[0])
		return Val{T: e.ex.sliceCap(v.T), Ty: intT}
	case "implies":
		return Val{T: Implies(e.eval(x.Args[0]).T, e.eval(x.Args[1]).T), Ty: boolT}
	case "iff":
		return Val{T: Eq(e.eval(x.Args[0]).T, e.eval(x.Args[1]).T), Ty: boolT}
	case "ite":
		cnd := e.eval(x.Args[0])
		a, b := e.eval(x.Args[1]), e.eval(x.Args[2])
		if a.Const != nil && b.Const == nil {
			a = c.materialise(a, b.Ty)
		}
		if b.Const != nil && a.Const == nil {
			b = c.materialise(b, a.Ty)
		}
		if a.Const != nil && b.Const != nil {
			a = c.materialise(a, intT)
			b = c.materialise(b, intT)
		}
		if c.Mode == ArithBV && (a.Wide || b.Wide) {
			return Val{T: Ite(cnd.T, c.widen(a), c.widen(b)), Ty: a.Ty, Wide: true}
		}
		return Val{T: Ite(cnd.T, a.T, b.T), Ty: a.Ty}
	case "forall", "exists":
		return e.quant(name, x.Args)
	case "has":
		m := e.eval(x.Args[0])
		mt := m.Ty.Underlying().(*types.Map)
		k := e.ex.coerce(e.eval(x.Args[1]), mt.Key()).T
		return Val{T: And(Not(Eq(m.T, IntLit("0"))), e.ex.mapHas(e.st, mt, m.T, k)), Ty: boolT}
	case "local":
		// local(name, n): the n-th (1-based, in source order) local variable called name - for names that are
		// declared more than once in the function (shadowing)
		id, ok := x.Args[0].(*ast.Ident)
		if !ok {
			panic(e.fail("local(name, n): needs an identifier"))
		}
		// local(name, T): the first local called name that has type T
		wantT := e.resolveType(x.Args[1])
		var n int64 = 1
		if wantT == nil {
			nv := e.eval(x.Args[1])
			if nv.Const == nil {
				panic(e.fail("local(name, n): needs a constant or a type"))
			}
			n, _ = constant.Int64Val(nv.Const)
		}
		var as []*ssa.Alloc
		for _, b := range e.ex.fn.Blocks {
			for _, in := range b.Instrs {
				if a, ok := in.(*ssa.Alloc); ok && a.Comment == id.Name {
					if wantT != nil && !types.Identical(a.Type().(*types.Pointer).Elem(), wantT) {
						continue
					}
					as = append(as, a)
				}
			}
		}
		sort.Slice(as, func(i, j int) bool { return as[i].Pos() < as[j].Pos() })
		if n < 1 || int(n) > len(as) {
			panic(e.fail("unknown identifier %q (declaration %d)", id.Name, n))
		}
		a := as[n-1]
		t := a.Type().(*types.Pointer).Elem()
		cst := e.st
		if e.cellSt != nil {
			cst = e.cellSt
		}
		if e.ex.cells[a] {
			return Val{T: e.ex.loadLoc(cst, &Loc{Kind: LCell, Cell: a, Ty: t}), Ty: t}
		}
		if v, ok := e.ex.vals[a]; ok && v.Loc == nil {
			return Val{T: e.ex.loadLoc(cst, e.ex.locOfRef(v.T, t)), Ty: t}
		}
		panic(e.fail("unknown identifier %q (declaration %d not executed)", id.Name, n))
	case "unbox":
		// unbox(x, T): the value of dynamic type T held by the interface value x (e.g. an element of a ...any argument list)
		v := e.eval(x.Args[0])
		t := e.resolveType(x.Args[1])
		if t == nil {
			panic(e.fail("unbox(x, T): unknown type"))
		}
		switch t.Underlying().(type) {
		case *types.Pointer, *types.Map, *types.Chan, *types.Signature, *types.Interface:
			return Val{T: v.T, Ty: t}
		}
		srt := c.sortOf(t)
		return Val{T: T(srt, "(%s %s)", e.ex.unboxFn(srt), v.T.S), Ty: t}
	case "oldhas", "oldget":
		// oldhas(m, k) / oldget(m, k): membership / value in the ENTRY state of the map denoted by m (evaluated in the
		// entry state), for a key evaluated in the current state (so the key may mention locals and loop variables)
		if e.old == nil {
			panic(e.fail("%s() not available here", name))
		}
		n := e.inState(e.old)
		n.locals = false
		m := n.eval(x.Args[0])
		mt, ok := m.Ty.Underlying().(*types.Map)
		if !ok {
			panic(e.fail("%s(m, k): not a map", name))
		}
		k := e.ex.coerce(e.eval(x.Args[1]), mt.Key()).T
		if name == "oldhas" {
			return Val{T: And(Not(Eq(m.T, IntLit("0"))), e.ex.mapHas(e.old, mt, m.T, k)), Ty: boolT}
		}
		return Val{T: e.ex.mapVal(e.old, mt, m.T, k), Ty: mt.Elem()}
	case "mapsum":
		// mapsum(m): the ghost weighted sum declared for m's map type (stubs: "mapsum <name> <weight> <type>")
		m := e.eval(x.Args[0])
		mt, ok := m.Ty.Underlying().(*types.Map)
		if !ok {
			panic(e.fail("mapsum(m): not a map"))
		}
		t, msd := e.ex.mapSumTerm(e.st, mt, m.T)
		if msd == nil {
			panic(e.fail("mapsum(m): no mapsum declared for %s", mt))
		}
		return Val{T: t, Ty: types.Typ[types.Int]}
	case "visited":
		// visited(m, k): the range loop over map m has already produced key k (ghost state of the iteration)
		m := e.eval(x.Args[0])
		mt := m.Ty.Underlying().(*types.Map)
		k := e.ex.coerce(e.eval(x.Args[1]), mt.Key()).T
		ks := c.sortOf(mt.Key())
		hv := c.heapGet(e.st, c.keyMapVisited(mt))
		return Val{T: Select(Select(hv, m.T, ArraySort(ks, SBool)), k, SBool), Ty: boolT}
	case "fresh":
		v := e.eval(x.Args[0])
		ref := v.T
		if v.T.Sort == SSl {
			ref = sliceArr(v.T)
		}
		return Val{T: T(SBool, "(>= %s %s)", ref.S, e.old.alloc.S), Ty: boolT}
	case "disjoint":
		// two slices do not share a backing array (a nil slice shares with nothing)
		a, b := e.eval(x.Args[0]), e.eval(x.Args[1])
		if a.T.Sort != SSl || b.T.Sort != SSl {
			panic(e.fail("disjoint() wants two slices"))
		}
		return Val{T: Or(Eq(sliceArr(a.T), IntLit("0")), Not(Eq(sliceArr(a.T), sliceArr(b.T)))), Ty: boolT}
	case "min", "max":
		a, b := e.eval(x.Args[0]), e.eval(x.Args[1])
		if a.Const != nil {
			a = c.materialise(a, b.Ty)
		}
		if b.Const != nil {
			b = c.materialise(b, a.Ty)
		}
		op := token.LSS
		if name == "max" {
			op = token.GTR
		}
		cmp := e.ex.binop(op, a, b, nil, token.NoPos, true)
		if c.Mode == ArithBV && (a.Wide || b.Wide) {
			return Val{T: Ite(cmp.T, c.widen(a), c.widen(b)), Ty: a.Ty, Wide: true}
		}
		return Val{T: Ite(cmp.T, a.T, b.T), Ty: a.Ty}
	case "heapold":
		// the expression evaluated on the entry heap, with local variables at their current values
		if e.old == nil {
			panic(e.fail("heapold() not available here"))
		}
		n := *e
		if n.cellSt == nil {
			n.cellSt = e.st
		}
		n.st = e.old
		return n.eval(x.Args[0])
	case "deq":
		a, b := e.eval(x.Args[0]), e.eval(x.Args[1])
		return Val{T: e.ex.deqTerm(a.T, b.T), Ty: boolT}
	case "resultof":
		// the result of the most recent call (on this path) of the callee named in an assert-call clause
		nm := types.ExprString(x.Args[0])
		root := e.ex
		for root.parent != nil {
			root = root.parent
		}
		if v, ok := root.lastResult[nm]; ok {
			if len(x.Args) == 2 {
				// resultof(callee, i): the i-th result of a multi-result call
				iv := e.eval(x.Args[1])
				if iv.Const == nil || len(v.Tuple) == 0 {
					panic(e.fail("resultof(%s, i): needs a constant index into a multi-result call", nm))
				}
				n, _ := constant.Int64Val(iv.Const)
				if n < 0 || int(n) >= len(v.Tuple) {
					panic(e.fail("resultof(%s, %d): index out of range", nm, n))
				}
				return v.Tuple[n]
			}
			return v
		}
		// the callee is called somewhere in the function but not before this point on this path: an arbitrary
		// value (clauses guard such uses with called(f) == 1)
		tracked := false
		if root.ct != nil {
			for _, a := range root.ct.Asserts {
				if a.Name == nm {
					tracked = true
				}
			}
		}
		if !tracked {
			panic(e.fail("resultof(%s): calls of %s are not tracked (add a clause 'assert-call %s: true')", nm, nm, nm))
		}
		if rt := root.resultTypeOfCallee(nm); rt != nil {
			v := root.freshVal("resultof.none", rt)
			if len(x.Args) == 2 && len(v.Tuple) > 0 {
				iv := e.eval(x.Args[1])
				if iv.Const != nil {
					if n, _ := constant.Int64Val(iv.Const); n >= 0 && int(n) < len(v.Tuple) {
						return v.Tuple[n]
					}
				}
			}
			return v
		}
		panic(e.fail("resultof(%s): no such call seen before this point", nm))
	case "called":
		// number of calls (so far on this path) of the callee named in an assert-call clause
		nm := types.ExprString(x.Args[0])
		if t, ok := e.st.ghost[nm]; ok {
			return Val{T: t, Ty: intT}
		}
		return Val{T: c.idxLit(0), Ty: intT}
	case "b2i":
		v := e.eval(x.Args[0])
		return Val{T: Ite(v.T, c.idxLit(1), c.idxLit(0)), Ty: intT}
	case "isnil":
		v := e.eval(x.Args[0])
		if v.T.Sort == SSl {
			return Val{T: Eq(sliceArr(v.T), IntLit("0")), Ty: boolT}
		}
		return Val{T: Eq(v.T, IntLit("0")), Ty: boolT}
	case "dyntype":
		v := e.eval(x.Args[0])
		return Val{T: T(SInt, "(dyntype %s)", v.T.S), Ty: intT}
	case "typetag":
		t := e.resolveType(x.Args[0])
		if t == nil {
			panic(e.fail("typetag: unknown type"))
		}
		return Val{T: c.typeTag(t), Ty: intT}
	}
	// local defs
	if e.ct != nil {
		for _, d := range e.ct.Defs {
			if d.Name == name {
				return e.localDef(d, x.Args)
			}
		}
	}
	if sf, ok := e.ex.w.Specs[name]; ok {
		return e.specCall(sf, x.Args)
	}
	// pure module function in the same package
	if e.pkg != nil {
		if fn, ok := e.pkg.Scope().Lookup(name).(*types.Func); ok {
			return e.pureCall(fn, nil, x.Args)
		}
	}
	panic(e.fail("unknown function %q", name))
}

func parseTypeExpr(s string) (ast.Expr, error) {
	return parseExprRaw(s)
}

func (e *Env) quant(kind string, args []ast.Expr) Val {
	c := e.c()
	if len(args) == 3 {
		// forall(x, T, P): quantification over all values of a Go type
		id, ok := args[0].(*ast.Ident)
		t := e.resolveType(args[1])
		if !ok || t == nil {
			panic(e.fail("%s(x, T, P): bad variable or type", kind))
		}
		c.fresh++
		bv := fmt.Sprintf("%s!q%d", id.Name, c.fresh)
		s := c.sortOf(t)
		xv := Val{T: Term{bv, s}, Ty: t}
		body := e.with(id.Name, xv).eval(args[2])
		rng := c.rangeFact(xv.T, t)
		if kind == "forall" {
			return Val{T: T(SBool, "(forall ((%s %s)) %s)", bv, s, Implies(rng, body.T).S), Ty: types.Typ[types.Bool]}
		}
		return Val{T: T(SBool, "(exists ((%s %s)) %s)", bv, s, And(rng, body.T).S), Ty: types.Typ[types.Bool]}
	}
	if len(args) != 4 {
		panic(e.fail("%s(i, lo, hi, P) expected", kind))
	}
	id, ok := args[0].(*ast.Ident)
	if !ok {
		panic(e.fail("%s: first argument must be an identifier", kind))
	}
	c.fresh++
	bv := fmt.Sprintf("%s!q%d", id.Name, c.fresh)
	iv := Val{T: Term{bv, c.idxSort()}, Ty: types.Typ[types.Int]}
	lo := e.asIdx(e.eval(args[1]))
	hi := e.asIdx(e.eval(args[2]))
	body := e.with(id.Name, iv).eval(args[3])
	var rng Term
	if c.Mode == ArithBV {
		rng = T(SBool, "(and (bvsle %s %s) (bvslt %s %s))", lo.S, bv, bv, hi.S)
	} else {
		rng = T(SBool, "(and (<= %s %s) (< %s %s))", lo.S, bv, bv, hi.S)
	}
	if kind == "forall" {
		// explicit triggers: the element accesses X[i] of the body (accessor terms whose index argument is the bare bound
		// variable). Without them the solver picks triggers itself or falls back to model-based instantiation, which is
		// what made quantified invariants over appended slices slow and unstable.
		if pats := atPatterns(body.T.S, bv); len(pats) > 0 && c.Mode == ArithInt && os.Getenv("GOVC_EXPLICIT_PATTERNS") != "" {
			var b strings.Builder
			for _, p := range pats {
				b.WriteString(" :pattern (" + p + ")")
			}
			return Val{T: T(SBool, "(forall ((%s %s)) (! %s%s))", bv, c.idxSort(), Implies(rng, body.T).S, b.String()), Ty: types.Typ[types.Bool]}
		}
		return Val{T: T(SBool, "(forall ((%s %s)) %s)", bv, c.idxSort(), Implies(rng, body.T).S), Ty: types.Typ[types.Bool]}
	}
	return Val{T: T(SBool, "(exists ((%s %s)) %s)", bv, c.idxSort(), And(rng, body.T).S), Ty: types.Typ[types.Bool]}
}

// atPatterns extracts the distinct accessor terms "(at.<key> <heap> <slice> bv)" of a formula whose index argument is
// exactly the bound variable and which mention no other bound variable and no if-then-else (not allowed in patterns).
func atPatterns(f string, bv string) []string {
	var out []string
	seen := map[string]bool{}
	for i := 0; i+4 < len(f); i++ {
		if !strings.HasPrefix(f[i:], "(at.") {
			continue
		}
		depth := 0
		end := -1
		for j := i; j < len(f); j++ {
			if f[j] == '(' {
				depth++
			} else if f[j] == ')' {
				depth--
				if depth == 0 {
					end = j
					break
				}
			}
		}
		if end < 0 {
			continue
		}
		t := f[i : end+1]
		if !strings.HasSuffix(t, " "+bv+")") || strings.Contains(t, "(ite ") {
			continue
		}
		inner := strings.TrimSuffix(t, " "+bv+")")
		if hasBoundVar(strings.ReplaceAll(inner, bv, "")) && strings.Contains(strings.ReplaceAll(inner, bv, ""), "!q") {
			continue // mentions another quantified variable
		}
		if strings.Contains(inner, bv) {
			continue
		}
		if !seen[t] {
			seen[t] = true
			out = append(out, t)
		}
	}
	if len(out) > 3 {
		out = out[:3]
	}
	return out
}

// specCall applies a spec function from /verif/specs.
func (e *Env) specCall(sf *SpecFunc, args []ast.Expr) Val {
	c := e.c()
	if len(args) != len(sf.Params) {
		panic(e.fail("spec %s expects %d arguments", sf.Name, len(sf.Params)))
	}
	specEnv := &Env{ex: e.ex, st: e.st, old: e.old, vars: map[string]Val{}, pkg: e.pkg, where: e.where}
	rt := specEnv.typeFromString(sf.Result)
	vals := make([]Val, len(args))
	for i, a := range args {
		pt := specEnv.typeFromString(sf.Params[i].Type)
		v := e.eval(a)
		if v.Const != nil {
			v = c.materialise(v, pt)
		}
		if c.Mode == ArithBV && isInteger(pt) && !v.Wide {
			// spec functions over integers work on wide values
			v = Val{T: c.widen(v), Ty: pt, Wide: true}
		}
		vals[i] = v
	}
	if sf.Expr != nil && !sf.Rec {
		// macro expansion
		for i, p := range sf.Params {
			specEnv.vars[p.Name] = vals[i]
		}
		specEnv.ct = nil
		r := specEnv.eval(sf.Expr)
		if r.Const != nil {
			r = c.materialise(r, rt)
		}
		if isInteger(rt) && r.Ty != nil && isInteger(r.Ty) && (r.Wide || r.T.Sort != c.sortOf(rt)) {
			// the declared result type decides the width (e.g. byte-valued ite over untyped constants)
			r = c.convertInt(r, rt, true)
		}
		if isInteger(rt) {
			r.Ty = rt
		}
		return r
	}
	// SMT-level function
	sorts := make([]string, len(vals))
	strs := make([]string, len(vals))
	for i, v := range vals {
		sorts[i] = string(v.T.Sort)
		strs[i] = v.T.S
	}
	wide := c.Mode == ArithBV && isInteger(rt)
	rs := c.sortOf(rt)
	if wide {
		rs = "(_ BitVec 128)"
	}
	key := "spec:" + sf.Name
	if !c.declKeys[key] {
		body := sf.SMT
		if c.Mode == ArithBV {
			body = sf.SMTBV
		}
		if body != "" {
			ps := make([]string, len(sf.Params))
			for i, p := range sf.Params {
				ps[i] = fmt.Sprintf("(%s %s)", p.Name, sorts[i])
			}
			c.decl(key, fmt.Sprintf("(define-fun %s (%s) %s %s)", "sp."+sf.Name, strings.Join(ps, " "), rs, body))
		} else {
			if c.Mode == ArithBV && sf.SMT != "" {
				panic(e.fail("spec %s has no bit-vector definition", sf.Name))
			}
			c.decl(key, fmt.Sprintf("(declare-fun %s (%s) %s)", "sp."+sf.Name, strings.Join(sorts, " "), rs))
			c.trust("uninterpreted spec function " + sf.Name)
		}
		e.ex.w.includeAxioms(c, e, sf.Name)
	}
	if len(vals) == 0 {
		return Val{T: Term{"sp." + sf.Name, rs}, Ty: rt, Wide: wide}
	}
	return Val{T: Term{fmt.Sprintf("(sp.%s %s)", sf.Name, strings.Join(strs, " ")), rs}, Ty: rt, Wide: wide}
}

// includeAxioms adds the axioms that mention a spec function (declared with "uses").
func (w *World) includeAxioms(c *Ctx, e *Env, specName string) {
	for _, ax := range w.Axioms {
		if !contains(ax.Uses, specName) || ax.Lemma {
			continue
		}
		key := "axiom:" + ax.Name
		if c.declKeys[key] {
			continue
		}
		// all used spec functions must be declared; declare lazily by evaluating
		c.declKeys[key] = true
		var text string
		if ax.SMT != "" {
			text = ax.SMT
		} else {
			axEnv := &Env{ex: e.ex, st: e.st, old: e.old, vars: map[string]Val{}, pkg: e.pkg, where: fmt.Sprintf("%s:%d", ax.File, ax.Line)}
			var binds []string
			for _, p := range ax.Params {
				t := axEnv.typeFromString(p.Type)
				s := c.sortOf(t)
				axEnv.vars[p.Name] = Val{T: Term{p.Name + "!ax", s}, Ty: t}
				binds = append(binds, fmt.Sprintf("(%s!ax %s)", p.Name, s))
			}
			body := axEnv.eval(ax.Expr).T
			if len(binds) > 0 {
				text = fmt.Sprintf("(forall (%s) %s)", strings.Join(binds, " "), body.S)
			} else {
				text = body.S
			}
		}
		c.decls = append(c.decls, fmt.Sprintf("(assert %s) ; axiom %s", text, ax.Name))
		c.trust("axiom " + ax.Name + " (" + relFile(ax.File) + ")")
	}
}

func relFile(f string) string {
	f = strings.TrimPrefix(f, "/verif/")
	f = strings.TrimPrefix(f, "/repo/")
	return f
}

// localDef instantiates a function-local (possibly recursive) definition over the entry state.
func (e *Env) localDef(d *LocalDef, args []ast.Expr) Val {
	c := e.c()
	defEnv := &Env{ex: e.ex, st: e.defSt, old: e.defSt, vars: map[string]Val{}, pkg: e.pkg, ct: e.ct, defs: e.defs, defSt: e.defSt, where: e.where}
	for k, v := range e.vars {
		// parameters of the contract stay visible inside the definition (entry values)
		if strings.HasPrefix(k, "old:") {
			defEnv.vars[k] = v
		}
	}
	for k, v := range e.baseParams() {
		defEnv.vars[k] = v
	}
	rt := defEnv.typeFromString(d.Result)
	pts := make([]types.Type, len(d.Params))
	for i, p := range d.Params {
		pts[i] = defEnv.typeFromString(p.Type)
	}
	sym, ok := e.defs[d.Name]
	if !ok {
		c.fresh++
		sym = fmt.Sprintf("def.%s!%d", d.Name, c.fresh)
		e.defs[d.Name] = sym
		var sorts, binds, names []string
		inner := defEnv
		for i, p := range d.Params {
			s := c.sortOf(pts[i])
			sorts = append(sorts, string(s))
			bn := fmt.Sprintf("%s!d%d", p.Name, c.fresh)
			binds = append(binds, fmt.Sprintf("(%s %s)", bn, s))
			names = append(names, bn)
			inner = inner.with(p.Name, Val{T: Term{bn, s}, Ty: pts[i]})
		}
		rs := c.sortOf(rt)
		c.decl("def:"+sym, fmt.Sprintf("(declare-fun %s (%s) %s)", sym, strings.Join(sorts, " "), rs))
		body := inner.eval(d.Expr)
		if body.Const != nil {
			body = c.materialise(body, rt)
		}
		if d.Rec {
			// successor-form axioms; the pattern f(.., k+1) does not re-trigger on its own instances
			if len(d.Params) == 0 {
				panic(e.fail("recursive def %s needs a parameter", d.Name))
			}
			base := inner.eval(d.Base)
			if base.Const != nil {
				base = c.materialise(base, rt)
			}
			k := names[len(names)-1]
			app := fmt.Sprintf("(%s %s)", sym, strings.Join(names, " "))
			succNames := append(append([]string{}, names[:len(names)-1]...), fmt.Sprintf("(+ %s 1)", k))
			succ := fmt.Sprintf("(%s %s)", sym, strings.Join(succNames, " "))
			c.emit("(assert (forall (%s) (! (=> (<= %s 0) (= %s %s)) :pattern (%s))))", strings.Join(binds, " "), k, app, base.T.S, app)
			c.emit("(assert (forall (%s) (! (=> (>= %s 0) (= %s %s)) :pattern (%s))))", strings.Join(binds, " "), k, succ, body.T.S, succ)
		} else if len(d.Params) == 0 {
			c.emit("(assert (= %s %s))", sym, body.T.S)
		} else {
			app := fmt.Sprintf("(%s %s)", sym, strings.Join(names, " "))
			c.emit("(assert (forall (%s) (! (= %s %s) :pattern (%s))))", strings.Join(binds, " "), app, body.T.S, app)
		}
	}
	if len(d.Params) == 0 {
		return Val{T: Term{sym, c.sortOf(rt)}, Ty: rt}
	}
	strs := make([]string, len(args))
	for i, a := range args {
		v := e.eval(a)
		if v.Const != nil {
			v = c.materialise(v, pts[i])
		}
		strs[i] = v.T.S
	}
	return Val{T: Term{fmt.Sprintf("(%s %s)", sym, strings.Join(strs, " ")), c.sortOf(rt)}, Ty: rt}
}

func (e *Env) baseParams() map[string]Val {
	out := map[string]Val{}
	for k, v := range e.vars {
		if strings.HasPrefix(k, "old:") {
			out[strings.TrimPrefix(k, "old:")] = v
		}
	}
	return out
}

// methodCall handles x.M(args) in a contract: M must be a function with a pure contract or stub.
func (e *Env) methodCall(sel *ast.SelectorExpr, args []ast.Expr) Val {
	// package function?
	if id, ok := sel.X.(*ast.Ident); ok {
		if _, isVar := e.vars[id.Name]; !isVar {
			if _, isOld := e.vars["old:"+id.Name]; !isOld && (!e.locals || e.ex.localByName(id.Name) == nil) {
				if p := e.importedPkg(id.Name); p != nil {
					if fn, ok := p.Scope().Lookup(sel.Sel.Name).(*types.Func); ok {
						return e.pureCall(fn, nil, args)
					}
					panic(e.fail("unknown function %s.%s", id.Name, sel.Sel.Name))
				}
			}
		}
	}
	recv := e.eval(sel.X)
	obj, _, _ := types.LookupFieldOrMethod(recv.Ty, true, e.pkgOrOwner(recv.Ty), sel.Sel.Name)
	fn, ok := obj.(*types.Func)
	if !ok {
		panic(e.fail("no method %s on %s", sel.Sel.Name, recv.Ty))
	}
	return e.pureCall(fn, &recv, args)
}

// pureCall applies a Go function on the specification side through an uninterpreted symbol
// constrained by the function's (pure) contract.
func (e *Env) pureCall(fn *types.Func, recv *Val, args []ast.Expr) Val {
	c := e.c()
	w := e.ex.w
	sig := fn.Type().(*types.Signature)
	ct, key := w.contractForObj(fn)
	if ct == nil || !ct.Pure {
		panic(e.fail("call of %s in a contract needs a pure contract or stub", fn.FullName()))
	}
	var vals []Val
	var names []string
	if recv != nil {
		rv := *recv
		vals = append(vals, rv)
		if sig.Recv() != nil {
			names = append(names, sig.Recv().Name())
		} else {
			names = append(names, "recv")
		}
	}
	for i, a := range args {
		v := e.eval(a)
		pt := sig.Params().At(i).Type()
		if v.Const != nil {
			v = c.materialise(v, pt)
		}
		if c.Mode == ArithBV && v.Wide {
			v = Val{T: c.narrow(v, pt), Ty: pt}
		}
		vals = append(vals, v)
		names = append(names, sig.Params().At(i).Name())
	}
	if sig.Results().Len() != 1 {
		panic(e.fail("pure function %s must have one result", fn.FullName()))
	}
	rt := sig.Results().At(0).Type()
	sym := "pure." + sanitizeSym(key)
	var sorts, strs []string
	for _, v := range vals {
		sorts = append(sorts, string(v.T.Sort))
		strs = append(strs, v.T.S)
	}
	rs := c.sortOf(rt)
	c.decl("fn:"+sym, fmt.Sprintf("(declare-fun %s (%s) %s)", sym, strings.Join(sorts, " "), rs))
	app := Term{fmt.Sprintf("(%s %s)", sym, strings.Join(strs, " ")), rs}
	if len(vals) == 0 {
		app = Term{sym, rs}
	}
	// the contract of the pure function, universally quantified over its parameters (heap-independent)
	axKey := "pureax:" + sym
	if !c.declKeys[axKey] {
		c.declKeys[axKey] = true
		penv := &Env{ex: e.ex, st: e.ex.entry, old: e.ex.entry, vars: map[string]Val{}, pkg: fn.Pkg(), ct: ct, defs: map[string]string{}, defSt: e.ex.entry, where: fmt.Sprintf("%s:%d", ct.File, ct.Line)}
		var binds, bnames []string
		for i, n := range names {
			bn := fmt.Sprintf("%s!pa%d", sanitizeSym(n), i)
			binds = append(binds, fmt.Sprintf("(%s %s)", bn, vals[i].T.Sort))
			bnames = append(bnames, bn)
			penv.vars[n] = Val{T: Term{bn, vals[i].T.Sort}, Ty: vals[i].Ty}
		}
		gapp := Term{fmt.Sprintf("(%s %s)", sym, strings.Join(bnames, " ")), rs}
		if len(vals) == 0 {
			gapp = Term{sym, rs}
		}
		penv.vars["result"] = Val{T: gapp, Ty: rt}
		if sig.Results().At(0).Name() != "" {
			penv.vars[sig.Results().At(0).Name()] = Val{T: gapp, Ty: rt}
		}
		var pre, post []Term
		for i := range vals {
			pre = append(pre, c.rangeFact(penv.vars[names[i]].T, vals[i].Ty))
		}
		for _, r := range ct.Requires {
			pre = append(pre, e.ex.evalBool(penv, r))
		}
		for _, en := range ct.Ensures {
			post = append(post, e.ex.evalBool(penv, en))
		}
		post = append(post, c.rangeFact(gapp, rt))
		body := Implies(And(pre...), And(post...))
		if len(binds) > 0 {
			c.decls = append(c.decls, fmt.Sprintf("(assert (forall (%s) (! %s :pattern (%s)))) ; contract of pure %s", strings.Join(binds, " "), body.S, gapp.S, key))
		} else {
			c.decls = append(c.decls, fmt.Sprintf("(assert %s)", body.S))
		}
		if ct.Extern {
			c.trust("assumed contract of " + key)
		}
	}
	return Val{T: app, Ty: rt}
}

// resultTypeOfCallee finds a call of the named callee anywhere in the function and returns its result type.
func (ex *Exec) resultTypeOfCallee(nm string) types.Type {
	if ex.fn == nil {
		return nil
	}
	for _, b := range ex.fn.Blocks {
		for _, in := range b.Instrs {
			call, ok := in.(*ssa.Call)
			if !ok {
				continue
			}
			cc := &call.Call
			var full string
			switch {
			case cc.IsInvoke():
				full = cc.Method.FullName()
			case cc.StaticCallee() != nil:
				full = cc.StaticCallee().String()
			default:
				full = exprName(cc.Value)
			}
			if calleeMatches(full, nm) {
				return call.Type()
			}
		}
	}
	return nil
}
