package main

// Must-fail selftest corpus: property-breaking edits applied through the package loader's
// overlay (nothing is written to /repo); each must make a named obligation fail.

import (
	"encoding/json"
	"flag"
	"fmt"
	"os"
	"path/filepath"
	"sort"
	"strings"
)

type Mutant struct {
	Name     string   `json:"name"`
	Property string   `json:"property"`
	File     string   `json:"file"` // relative to the repo; "verif:<path>" = a stub/spec file of /verif (engine canary)
	Old      string   `json:"old"`
	New      string   `json:"new"`
	Nth      int      `json:"nth"`    // which occurrence (1-based, default 1)
	Expect   []string `json:"expect"` // substrings of obligation names, at least one must fail
	Why      string   `json:"why"`
}

func loadMutants(verif string) ([]Mutant, error) {
	files, _ := filepath.Glob(filepath.Join(verif, "selftest", "*.json"))
	sort.Strings(files)
	var out []Mutant
	for _, f := range files {
		data, err := os.ReadFile(f)
		if err != nil {
			return nil, err
		}
		var ms []Mutant
		if err := json.Unmarshal(data, &ms); err != nil {
			return nil, fmt.Errorf("%s: %v", f, err)
		}
		out = append(out, ms...)
	}
	return out, nil
}

func applyMutant(repo string, m Mutant) (map[string][]byte, error) {
	path := filepath.Join(repo, m.File)
	if rest, ok := strings.CutPrefix(m.File, "verif:"); ok {
		path = filepath.Join(selftestVerif, rest)
	}
	data, err := os.ReadFile(path)
	if err != nil {
		return nil, err
	}
	s := string(data)
	nth := m.Nth
	if nth <= 0 {
		nth = 1
	}
	idx := -1
	from := 0
	for i := 0; i < nth; i++ {
		j := strings.Index(s[from:], m.Old)
		if j < 0 {
			return nil, fmt.Errorf("mutant %s: occurrence %d of %q not found in %s", m.Name, nth, m.Old, m.File)
		}
		idx = from + j
		from = idx + len(m.Old)
	}
	s = s[:idx] + m.New + s[idx+len(m.Old):]
	return map[string][]byte{path: []byte(s)}, nil
}

var selftestVerif = "/verif"

func cmdSelftest(args []string) int {
	fs := flag.NewFlagSet("selftest", flag.ExitOnError)
	prop := fs.String("prop", "", "only mutants of this property")
	name := fs.String("name", "", "only this mutant")
	repo := fs.String("repo", "/repo", "repository")
	verif := fs.String("verif", "/verif", "verif dir")
	verbose := fs.Bool("v", false, "verbose")
	_ = fs.Parse(args)
	ms, err := loadMutants(*verif)
	if err != nil {
		fmt.Fprintln(os.Stderr, err)
		return 2
	}
	bad := 0
	n := 0
	for _, m := range ms {
		if *prop != "" && m.Property != *prop {
			continue
		}
		if *name != "" && m.Name != *name {
			continue
		}
		n++
		selftestVerif = *verif
		ov, err := applyMutant(*repo, m)
		if err != nil {
			fmt.Printf("SELFTEST-ERROR %s: %v\n", m.Name, err)
			bad++
			continue
		}
		specOverlay = nil
		if strings.HasPrefix(m.File, "verif:") {
			specOverlay, ov = ov, nil
		}
		o := &options{prop: m.Property, tier: "quick", repo: *repo, verif: *verif, noEvid: true}
		o.timeout = 10e9
		res, err := runCheck(o, ov)
		if err != nil {
			fmt.Printf("SELFTEST-ERROR %s: %v\n", m.Name, err)
			bad++
			continue
		}
		var failed []string
		hit := false
		for _, ob := range res.failed {
			failed = append(failed, ob.Name+"("+ob.Result.Status+")")
			for _, e := range m.Expect {
				if strings.Contains(ob.Name, e) {
					hit = true
				}
			}
		}
		for _, b := range res.bounded {
			if !b.OK {
				nm := "bounded." + b.Name
				failed = append(failed, nm+"(counterexample)")
				for _, e := range m.Expect {
					if strings.Contains(nm, e) {
						hit = true
					}
				}
			}
		}
		if len(m.Expect) == 0 && len(res.failed) > 0 {
			hit = true
		}
		switch {
		case hit:
			fmt.Printf("selftest %-40s DETECTED  %s\n", m.Name, strings.Join(failed, " "))
		case len(res.failed) > 0 || len(res.errors) > 0:
			fmt.Printf("selftest %-40s DETECTED-ELSEWHERE (expected %v) failed=%v errors=%v\n", m.Name, m.Expect, failed, res.errors)
			bad++
		default:
			fmt.Printf("selftest %-40s MISSED (expected %v)\n", m.Name, m.Expect)
			bad++
		}
		if *verbose {
			for _, e := range res.errors {
				fmt.Println("   error:", e)
			}
		}
	}
	fmt.Printf("selftest: %d mutants, %d not detected as expected\n", n, bad)
	if bad > 0 {
		return 1
	}
	return 0
}
