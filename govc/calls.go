package main

// Calls: builtins, contracts (modular), inlining of small helpers, stubs, havoc.

import (
	"go/ast"
	"fmt"
	"go/token"
	"go/types"
	"strings"

	"golang.org/x/tools/go/ssa"
)

// contractFor finds the contract (in-module) or stub (external / assumed) of an SSA function.
func (w *World) contractFor(fn *ssa.Function) (*Contract, string) {
	if fn == nil {
		return nil, ""
	}
	if o := fn.Origin(); o != nil {
		fn = o
	}
	pp := funcPkgPath(fn)
	key := pp + "::" + funcKey(fn)
	if ct, ok := w.Contracts[key]; ok {
		return ct, shortPkg(pp) + "." + funcKey(fn)
	}
	name := fn.String()
	if ct, ok := w.Stubs[name]; ok {
		return ct, name
	}
	// stubs may use the short module-relative package path
	if strings.HasPrefix(pp, modulePath) {
		short := strings.Replace(name, modulePath+"/", "", 1)
		if ct, ok := w.Stubs[short]; ok {
			return ct, short
		}
	}
	if ct := w.globStub(name); ct != nil {
		return ct, name
	}
	return nil, ""
}

// globStub matches stub keys containing a single '*' wildcard.
func (w *World) globStub(name string) *Contract {
	for k, ct := range w.Stubs {
		if !strings.Contains(k, ".*)") {
			continue
		}
		// wildcard stands for a type name:  (*pkg.*).Method
		star := strings.LastIndex(k, "*")
		pre, suf := k[:star], k[star+1:]
		if strings.HasPrefix(name, pre) && strings.HasSuffix(name, suf) && len(name) >= len(pre)+len(suf) {
			mid := name[len(pre) : len(name)-len(suf)]
			if !strings.ContainsAny(mid, "./()") {
				return ct
			}
		}
	}
	return nil
}

func (w *World) contractForObj(fn *types.Func) (*Contract, string) {
	if sf := w.Prog.FuncValue(fn); sf != nil {
		return w.contractFor(sf)
	}
	name := fn.FullName()
	if ct, ok := w.Stubs[name]; ok {
		return ct, name
	}
	return nil, ""
}

func isMutexOp(fn *ssa.Function) bool {
	if fn == nil {
		return false
	}
	s := fn.String()
	switch s {
	case "(*sync.Mutex).Lock", "(*sync.Mutex).Unlock", "(*sync.RWMutex).Lock", "(*sync.RWMutex).Unlock",
		"(*sync.RWMutex).RLock", "(*sync.RWMutex).RUnlock", "(*sync.Mutex).TryLock",
		"(*sync.WaitGroup).Add", "(*sync.WaitGroup).Done", "(*sync.WaitGroup).Wait":
		return true
	}
	return false
}

func (ex *Exec) doDeferred(d *ssa.Defer) {
	if isMutexOp(d.Call.StaticCallee()) {
		ex.c.trust("mutex operations are no-ops: reasoning is sequential under the lock")
		return
	}
	ex.callCommon(&d.Call, nil, d.Pos())
}

func (ex *Exec) doCall(in *ssa.Call) {
	r := ex.callCommon(&in.Call, in, in.Pos())
	if r != nil {
		root := ex
		for root.parent != nil {
			root = root.parent
		}
		if root.ct != nil && len(root.ct.Asserts) > 0 {
			cc := &in.Call
			var nm string
			switch {
			case cc.IsInvoke():
				nm = cc.Method.FullName()
			case cc.StaticCallee() != nil:
				nm = cc.StaticCallee().String()
			default:
				nm = exprName(cc.Value)
			}
			for _, a := range root.ct.Asserts {
				if calleeMatches(nm, a.Name) {
					if root.lastResult == nil {
						root.lastResult = map[string]Val{}
					}
					root.lastResult[a.Name] = *r
				}
			}
		}
		if len(r.Tuple) == 0 && r.T.S != "" && r.Loc == nil {
			r.T = ex.c.define(ex.fnPrefix()+in.Name(), r.T)
		}
		ex.vals[in] = *r
	}
}

// callCommon executes a call and returns its value (nil for no results).
func (ex *Exec) callCommon(cc *ssa.CallCommon, in *ssa.Call, p token.Pos) *Val {
	c := ex.c
	ex.curCall = cc
	if b, ok := cc.Value.(*ssa.Builtin); ok {
		return ex.builtin(b, cc, p)
	}
	if cc.IsInvoke() {
		return ex.invoke(cc, p)
	}
	callee := cc.StaticCallee()
	var binds []Val
	if callee == nil {
		fv := ex.val(cc.Value)
		if fv.Fn != nil {
			callee = fv.Fn
			binds = fv.Bind
		}
	} else if mc, ok := cc.Value.(*ssa.MakeClosure); ok {
		binds = ex.val(mc).Bind
	}
	if callee == nil {
		// a package-level function variable with an assumed contract (e.g. timeNow = time.Now)
		if ld, ok := cc.Value.(*ssa.UnOp); ok && ld.Op == token.MUL {
			// a function-typed struct field with an assumed contract (callback)
			if fa, ok := ld.X.(*ssa.FieldAddr); ok {
				if pt, ok := fa.X.Type().Underlying().(*types.Pointer); ok {
					if n, ok := pt.Elem().(*types.Named); ok && n.Obj().Pkg() != nil {
						fld := n.Underlying().(*types.Struct).Field(fa.Field).Name()
						key := "field:" + strings.TrimPrefix(n.Obj().Pkg().Path(), modulePath+"/") + "." + n.Obj().Name() + "." + fld
						if ct, ok := ex.w.Stubs[key]; ok {
							sig := cc.Signature()
							var names []string
							for i := 0; i < sig.Params().Len(); i++ {
								names = append(names, sig.Params().At(i).Name())
							}
							return ex.applyContract(ct, key, sig, names, ex.argVals(cc), p, nil)
						}
					}
				}
			}
			if g, ok := ld.X.(*ssa.Global); ok {
				key := "var:" + strings.TrimPrefix(g.String(), modulePath+"/")
				if ct, ok := ex.w.Stubs[key]; ok {
					sig := cc.Signature()
					var names []string
					for i := 0; i < sig.Params().Len(); i++ {
						names = append(names, sig.Params().At(i).Name())
					}
					return ex.applyContract(ct, key, sig, names, ex.argVals(cc), p, nil)
				}
			}
		}
	}
	if callee == nil && ex.w.isCancelCall(cc.Value) {
		c.trust("context cancel functions have no effect on the heap of the module")
		return nil
	}
	if callee == nil {
		// unknown function value
		c.note("%s: call of unknown function value at %s: results and heap havoc'd", ex.fn.Name(), relPos(ex.pos(p)))
		args := ex.argVals(cc)
		{
			sig := cc.Signature()
			var anames []string
			for i := 0; i < sig.Params().Len(); i++ {
				anames = append(anames, sig.Params().At(i).Name())
			}
			ex.assertCalls(exprName(cc.Value), anames, args, p)
		}
		ex.havocAllKeepingPrivateLocals()
		ex.bumpAlloc()
		ex.flushPendingHavoc()
		return ex.freshResults(cc.Signature().Results(), "dyn")
	}
	if isMutexOp(callee) {
		c.trust("mutex operations are no-ops: reasoning is sequential under the lock")
		// still a call event for assert-call clauses naming it (the arguments are not evaluated otherwise: taking the
		// address of the mutex field must not count as a write to it)
		root := ex
		for root.parent != nil {
			root = root.parent
		}
		if root.ct != nil {
			for _, a := range root.ct.Asserts {
				if calleeMatches(callee.String(), a.Name) {
					ex.assertCalls(callee.String(), paramNames(callee), ex.argVals(cc), p)
					ex.pendingHavoc = nil
					break
				}
			}
		}
		return nil
	}
	if r, ok := ex.sortSlice(callee, cc, p); ok {
		return r
	}
	if r, ok := ex.deepEqualCall(callee, cc); ok {
		return r
	}
	args := ex.argVals(cc)
	return ex.callFunction(callee, args, binds, p)
}

// sortSlice models sort.Slice / sort.SliceStable / sort.Strings / slices.Sort: only the elements of the
// given slice are permuted; nothing else changes (the comparator is assumed to be side-effect free).
func (ex *Exec) sortSlice(callee *ssa.Function, cc *ssa.CallCommon, p token.Pos) (*Val, bool) {
	c := ex.c
	name := callee.String()
	if o := callee.Origin(); o != nil {
		name = o.String()
	}
	switch name {
	case "sort.Slice", "sort.SliceStable", "sort.Strings", "sort.Ints", "slices.Sort", "slices.SortFunc", "slices.SortStableFunc":
	default:
		return nil, false
	}
	if len(cc.Args) == 0 {
		return nil, false
	}
	var sv ssa.Value = cc.Args[0]
	if mi, ok := sv.(*ssa.MakeInterface); ok {
		sv = mi.X
	}
	sl, ok := sv.Type().Underlying().(*types.Slice)
	if !ok {
		return nil, false
	}
	s := ex.val(sv).T
	k := c.keyElem(sl.Elem())
	info := c.heapSorts[k]
	h := c.heapGet(ex.st, k)
	arrSort := ArraySort(c.idxSort(), info.elem)
	oldArr := c.define("sort.old", Select(h, sliceArr(s), arrSort))
	na := c.freshConst("sort.arr", arrSort)
	if c.Mode == ArithInt {
		// outside the slice window nothing changes; inside, every element is one of the old elements and vice versa
		c.assume(T(SBool, "(forall ((i Int)) (! (=> (or (< i (s.off %[1]s)) (>= i (+ (s.off %[1]s) (s.len %[1]s)))) (= (select %[2]s i) (select %[3]s i))) :pattern ((select %[2]s i))))", s.S, na.S, oldArr.S))
		c.assume(T(SBool, "(forall ((i Int)) (! (=> (and (<= (s.off %[1]s) i) (< i (+ (s.off %[1]s) (s.len %[1]s)))) (exists ((j Int)) (and (<= (s.off %[1]s) j) (< j (+ (s.off %[1]s) (s.len %[1]s))) (= (select %[2]s i) (select %[3]s j))))) :pattern ((select %[2]s i))))", s.S, na.S, oldArr.S))
		c.assume(T(SBool, "(forall ((j Int)) (! (=> (and (<= (s.off %[1]s) j) (< j (+ (s.off %[1]s) (s.len %[1]s)))) (exists ((i Int)) (and (<= (s.off %[1]s) i) (< i (+ (s.off %[1]s) (s.len %[1]s))) (= (select %[2]s i) (select %[3]s j))))) :pattern ((select %[3]s j))))", s.S, na.S, oldArr.S))
	}
	pre := ex.st.clone()
	c.heapSet(ex.st, k, Store(h, sliceArr(s), na))
	if c.Mode == ArithInt {
		// the same permutation facts through the element accessor used by contract expressions (so that facts
		// stated about the elements before the call are found by E-matching for the elements after it, and back)
		hPost := c.heapGet(ex.st, k)
		bi, bj := Term{"i!pa", c.idxSort()}, Term{"j!pa", c.idxSort()}
		postI, preJ := c.elemAt(k, hPost, s, bi), c.elemAt(k, h, s, bj)
		c.assume(T(SBool, "(forall ((i!pa Int)) (! (=> (and (<= 0 i!pa) (< i!pa (s.len %[1]s))) (exists ((j!pa Int)) (and (<= 0 j!pa) (< j!pa (s.len %[1]s)) (= %[2]s %[3]s)))) :pattern (%[2]s)))", s.S, postI.S, preJ.S))
		c.assume(T(SBool, "(forall ((j!pa Int)) (! (=> (and (<= 0 j!pa) (< j!pa (s.len %[1]s))) (exists ((i!pa Int)) (and (<= 0 i!pa) (< i!pa (s.len %[1]s)) (= %[2]s %[3]s)))) :pattern (%[3]s)))", s.S, postI.S, preJ.S))
		// and as a bijection of positions (a permutation keeps multiplicities: distinct elements stay distinct)
		c.fresh++
		pf, qf := fmt.Sprintf("perm!%d", c.fresh), fmt.Sprintf("perminv!%d", c.fresh)
		c.decl("fn:"+pf, fmt.Sprintf("(declare-fun %s (Int) Int)", pf))
		c.decl("fn:"+qf, fmt.Sprintf("(declare-fun %s (Int) Int)", qf))
		prePI := c.elemAt(k, h, s, Term{"(" + pf + " i!pa)", c.idxSort()})
		postQJ := c.elemAt(k, hPost, s, Term{"(" + qf + " j!pa)", c.idxSort()})
		c.assume(T(SBool, "(forall ((i!pa Int)) (! (=> (and (<= 0 i!pa) (< i!pa (s.len %[1]s))) (and (<= 0 (%[4]s i!pa)) (< (%[4]s i!pa) (s.len %[1]s)) (= (%[5]s (%[4]s i!pa)) i!pa) (= %[2]s %[3]s))) :pattern (%[2]s)))", s.S, postI.S, prePI.S, pf, qf))
		c.assume(T(SBool, "(forall ((j!pa Int)) (! (=> (and (<= 0 j!pa) (< j!pa (s.len %[1]s))) (and (<= 0 (%[4]s j!pa)) (< (%[4]s j!pa) (s.len %[1]s)) (= (%[5]s (%[4]s j!pa)) j!pa) (= %[2]s %[3]s))) :pattern (%[2]s)))", s.S, preJ.S, postQJ.S, qf, pf))
	}
	c.trust("sort functions permute the elements of their slice argument and change nothing else; comparators are side-effect free")
	if (name == "slices.Sort" || name == "sort.Ints" || name == "sort.Strings") && c.Mode == ArithInt && (isInteger(sl.Elem()) || isString(sl.Elem())) {
		// natural order: the result is ascending
		hPost := c.heapGet(ex.st, k)
		a, b := c.elemAt(k, hPost, s, Term{"a!so", c.idxSort()}), c.elemAt(k, hPost, s, Term{"b!so", c.idxSort()})
		var le string
		if isString(sl.Elem()) {
			c.decl("fn:str.lt", "(declare-fun str.lt (Str Str) Bool)")
			le = fmt.Sprintf("(not (str.lt %s %s))", b.S, a.S)
		} else {
			le = fmt.Sprintf("(<= %s %s)", a.S, b.S)
		}
		c.assume(Implies(ex.rch, T(SBool, "(forall ((a!so Int) (b!so Int)) (! (=> (and (<= 0 a!so) (< a!so b!so) (< b!so (s.len %s))) %s) :pattern (%s %s)))", s.S, le, a.S, b.S)))
		c.trust("slices.Sort / sort.Ints / sort.Strings leave their argument in ascending order")
	}
	if less := ex.sortComparator(name, cc); less != nil && c.Mode == ArithInt {
		// The comparator closure carries a contract with a clause "ensures [less] result == E(i, j)". The sort's
		// guarantee (the result is ordered: no later element is less than an earlier one) holds when E is a strict
		// weak order on the elements, which is proved here, on the state before the call.
		n := T(c.idxSort(), "(s.len %s)", s.S)
		in := func(v string) string { return fmt.Sprintf("(and (<= 0 %s) (< %s %s))", v, v, n.S) }
		L := func(st *State, a, b string) string { return less(st, Term{a, c.idxSort()}, Term{b, c.idxSort()}).S }
		site := ex.callSiteID("sort:" + name)
		pos := ex.pos(p)
		c.obligeNamed("sort.less-irreflexive@"+site, "sort", pos, "the comparator handed to "+name+" is irreflexive on the elements", ex.rch,
			T(SBool, "(forall ((a!s Int)) (=> %s (not %s)))", in("a!s"), L(pre, "a!s", "a!s")))
		c.obligeNamed("sort.less-transitive@"+site, "sort", pos, "the comparator handed to "+name+" is transitive on the elements", ex.rch,
			T(SBool, "(forall ((a!s Int) (b!s Int) (d!s Int)) (=> (and %s %s %s %s %s) %s))", in("a!s"), in("b!s"), in("d!s"), L(pre, "a!s", "b!s"), L(pre, "b!s", "d!s"), L(pre, "a!s", "d!s")))
		c.obligeNamed("sort.less-incomparability-transitive@"+site, "sort", pos, "incomparability under the comparator handed to "+name+" is transitive (strict weak order)", ex.rch,
			T(SBool, "(forall ((a!s Int) (b!s Int) (d!s Int)) (=> (and %s %s %s (not %s) (not %s) (not %s) (not %s)) (and (not %s) (not %s))))", in("a!s"), in("b!s"), in("d!s"),
				L(pre, "a!s", "b!s"), L(pre, "b!s", "a!s"), L(pre, "b!s", "d!s"), L(pre, "d!s", "b!s"), L(pre, "a!s", "d!s"), L(pre, "d!s", "a!s")))
		c.assume(Implies(ex.rch, T(SBool, "(forall ((a!s Int) (b!s Int)) (=> (and (<= 0 a!s) (< a!s b!s) (< b!s %s)) (not %s)))", n.S, L(ex.st, "b!s", "a!s"))))
		c.trust("sort.Slice orders its argument with respect to a comparator that is a strict weak order (proved at the call)")
	}
	return nil, true
}

// sortComparator returns the comparator of a sort.Slice-style call as a term builder, when the closure handed to the
// call has a contract with a clause  ensures [less] result == E  (E over the closure's parameters and captured variables).
func (ex *Exec) sortComparator(name string, cc *ssa.CallCommon) func(st *State, i, j Term) Term {
	if name != "sort.Slice" && name != "sort.SliceStable" {
		return nil
	}
	if len(cc.Args) < 2 {
		return nil
	}
	fv := ex.val(cc.Args[1])
	if fv.Fn == nil {
		return nil
	}
	ct, key := ex.w.contractFor(fv.Fn)
	if ct == nil {
		return nil
	}
	var rhs ast.Expr
	for _, en := range ct.Ensures {
		if en.Name != "less" {
			continue
		}
		if be, ok := en.Expr.(*ast.BinaryExpr); ok && be.Op == token.EQL {
			if id, ok := be.X.(*ast.Ident); ok && id.Name == "result" {
				rhs = be.Y
			}
		}
	}
	if rhs == nil {
		return nil
	}
	names := paramNames(fv.Fn)
	if len(names) != 2 {
		return nil
	}
	intT := types.Typ[types.Int]
	return func(st *State, i, j Term) Term {
		env := &Env{ex: ex, st: st, old: st, vars: map[string]Val{}, pkg: fv.Fn.Pkg.Pkg, ct: ct, defs: map[string]string{}, defSt: st.clone(), where: key}
		env.vars[names[0]] = Val{T: i, Ty: intT}
		env.vars[names[1]] = Val{T: j, Ty: intT}
		for k, f := range fv.Fn.FreeVars {
			if k >= len(fv.Bind) {
				break
			}
			t := f.Type().(*types.Pointer).Elem()
			env.vars[f.Name()] = Val{T: ex.loadLoc(st, ex.locOfRef(fv.Bind[k].T, t)), Ty: t}
		}
		return env.eval(rhs).T
	}
}

func (ex *Exec) argVals(cc *ssa.CallCommon) []Val {
	args := make([]Val, len(cc.Args))
	for i, a := range cc.Args {
		args[i] = ex.escapeVal(a)
	}
	return args
}

func (ex *Exec) bumpAlloc() {
	c := ex.c
	na := c.freshConst("alloc.c", SInt)
	c.assume(T(SBool, "(>= %s %s)", na.S, ex.st.alloc.S))
	ex.st.alloc = na
}

func (ex *Exec) freshResults(res *types.Tuple, hint string) *Val {
	switch res.Len() {
	case 0:
		return nil
	case 1:
		v := ex.freshVal(hint, res.At(0).Type())
		return &v
	}
	v := ex.freshVal(hint, res)
	return &v
}

func (ex *Exec) callFunction(callee *ssa.Function, args []Val, binds []Val, p token.Pos) *Val {
	w := ex.w
	if len(callee.Blocks) == 0 && callee.Pkg != nil && strings.HasPrefix(funcPkgPath(callee), modulePath) {
		callee.Pkg.Build() // SSA of in-module dependencies is built on demand
	}
	ex.assertCalls(callee.String(), paramNames(callee), args, p)
	{
		root := ex
		for root.parent != nil {
			root = root.parent
		}
		if root.ct != nil {
			for _, pat := range root.ct.Opaque {
				if calleeMatches(callee.String(), pat) {
					// over-approximation requested by the contract of the function under verification: the callee's results are
					// arbitrary well-typed values and its inferred frame is havoc'd; its own contract is neither demanded nor used
					ex.c.trust(fmt.Sprintf("calls of %s are over-approximated in %s (opaque-call): arbitrary results, inferred frame", pat, root.fn.Name()))
					ex.havocForCall(callee, args, p)
					ex.flushPendingHavoc()
					return ex.freshResults(callee.Signature.Results(), "opaque."+callee.Name())
				}
			}
		}
	}
	ct, key := w.contractFor(callee)
	if ct != nil && !ct.Inline {
		return ex.applyContract(ct, key, callee.Signature, paramNames(callee), args, p, callee)
	}
	// inline small in-module helpers
	if funcPkgPath(callee) != "" && strings.HasPrefix(funcPkgPath(callee), modulePath) && len(callee.Blocks) > 0 && ex.depthOf() < 3 &&
		len(findLoops(callee)) == 0 && countInstrs(callee) <= 120 && !ex.inStack(callee) {
		return ex.inline(callee, args, binds, p)
	}
	// havoc
	ex.havocForCall(callee, args, p)
	return ex.freshResults(callee.Signature.Results(), "r."+callee.Name())
}

func countInstrs(f *ssa.Function) int {
	n := 0
	for _, b := range f.Blocks {
		n += len(b.Instrs)
	}
	return n
}

func (ex *Exec) depthOf() int { return ex.depth }

func (ex *Exec) inStack(f *ssa.Function) bool {
	for e := ex; e != nil; e = e.parent {
		if e.fn == f {
			return true
		}
	}
	return false
}

func paramNames(f *ssa.Function) []string {
	var out []string
	for _, p := range f.Params {
		out = append(out, p.Name())
	}
	if len(out) == 0 && f.Signature != nil {
		// external function without body: names from the signature
		if r := f.Signature.Recv(); r != nil {
			out = append(out, r.Name())
		}
		for i := 0; i < f.Signature.Params().Len(); i++ {
			out = append(out, f.Signature.Params().At(i).Name())
		}
	}
	return out
}

// applyContract: assert pre, havoc modifies, assume post.
func (ex *Exec) applyContract(ct *Contract, key string, sig *types.Signature, names []string, args []Val, p token.Pos, callee *ssa.Function) *Val {
	c := ex.c
	pos := ex.pos(p)
	pkg := ex.fn.Pkg.Pkg
	if callee != nil && callee.Pkg != nil {
		pkg = callee.Pkg.Pkg
	} else if callee != nil && callee.Object() != nil && callee.Object().Pkg() != nil {
		pkg = callee.Object().Pkg()
	}
	env := &Env{ex: ex, st: ex.st, old: ex.st, vars: map[string]Val{}, pkg: pkg, ct: ct, defs: map[string]string{}, defSt: ex.st.clone(), where: key}
	for i, n := range names {
		if i < len(args) {
			env.vars[n] = args[i]
			env.vars["old:"+n] = args[i]
		}
	}
	if sig.Recv() != nil && len(args) > 0 {
		env.vars["recv"] = args[0]
	}
	for i, r := range ct.Requires {
		g := ex.evalBool(env, r)
		o := c.obligeNamed(fmt.Sprintf("pre.%s.%d@%s", shortKey(key), i+1, ex.callSiteID(key)), "pre", pos,
			fmt.Sprintf("precondition of %s: %s", key, r.Text), ex.rch, g)
		_ = o
		c.assume(Implies(ex.rch, g))
	}
	if ct.Extern {
		c.trust("assumed contract of " + key + " (" + relFile(ct.File) + ")")
	}
	old := ex.st.clone()
	// frame
	switch {
	case ct.Pure:
	case ct.HasMod:
		ex.havocDeclared(ct, env, args, names)
	case ct.Extern:
		switch ct.Havoc {
		case "none":
		case "all":
			ex.havocAllKeepingPrivateLocals()
			ex.bumpAlloc()
		default:
			ex.havocExternalArgs(args)
		}
	default:
		ex.havocForCall(callee, args, p)
	}
	ex.flushPendingHavoc()
	if !ct.Pure {
		// anything that is not declared pure may allocate (a "modifies nothing" callee returning a fresh
		// object would otherwise contradict the allocation bound of its own result)
		ex.bumpAlloc()
	}
	res := sig.Results()
	var rv *Val
	if ct.Fresh && res.Len() == 1 {
		if sl, ok := res.At(0).Type().Underlying().(*types.Slice); ok {
			// a freshly allocated slice: only the new backing array is (un)constrained
			ref := ex.allocRef()
			k := c.keyElem(sl.Elem())
			info := c.heapSorts[k]
			arr := c.freshConst("fresh.arr", ArraySort(c.idxSort(), info.elem))
			c.heapSet(ex.st, k, Store(c.heapGet(ex.st, k), ref, arr))
			n := c.freshConst("fresh.len", c.idxSort())
			zero := c.idxLit(0)
			c.assume(ex.idxLe(zero, n))
			if c.Mode == ArithInt {
				c.assume(T(SBool, "(<= %s 281474976710655)", n.S))
			}
			rv = &Val{T: c.define("fresh.slice", ex.mkSlice(ref, zero, n, n)), Ty: res.At(0).Type()}
		} else {
			ref := ex.allocRef()
			rv = &Val{T: ref, Ty: res.At(0).Type()}
		}
	} else {
		var freshRef *Term
		if ct.Fresh && res.Len() > 1 {
			// multi-result callee declared fresh: its first result, when a pointer, is a newly allocated object
			// (or nil: the contract's postconditions say when)
			if _, isPtr := res.At(0).Type().Underlying().(*types.Pointer); isPtr {
				ref := ex.allocRef()
				freshRef = &ref
			}
		}
		rv = ex.freshResults(res, "r."+shortKey(key))
		if freshRef != nil && len(rv.Tuple) > 0 {
			r0 := rv.Tuple[0].T
			c.assume(Implies(ex.rch, Or(Eq(r0, IntLit("0")), Eq(r0, *freshRef))))
		}
	}
	post := &Env{ex: ex, st: ex.st, old: old, vars: env.vars, pkg: pkg, ct: ct, defs: env.defs, defSt: env.defSt, where: key}
	post.vars = map[string]Val{}
	for k, v := range env.vars {
		post.vars[k] = v
	}
	if rv != nil {
		post.vars["result"] = *rv
		if len(rv.Tuple) > 0 {
			for i, tv := range rv.Tuple {
				post.vars[fmt.Sprintf("result%d", i)] = tv
				if n := res.At(i).Name(); n != "" && n != "_" {
					post.vars[n] = tv
				}
			}
		} else if n := res.At(0).Name(); n != "" && n != "_" {
			post.vars[n] = *rv
		}
	}
	// the callee's postconditions are only established under its domain hypotheses
	var dom []Term
	for _, d := range ct.Domain {
		dom = append(dom, ex.evalBool(env, d))
	}
	baseLen := len(c.script)
	for _, en := range ct.Ensures {
		if strings.Contains(en.Text, "called(") || strings.Contains(en.Text, "resultof(") || strings.Contains(en.Text, "local(") {
			// a postcondition about the callee's own call events / locals says nothing a caller can use
			// (and must not be read against the caller's call counters)
			continue
		}
		if en.Assumed {
			c.trust(fmt.Sprintf("%s: postcondition %q is an assumption about a dependency (assumed-ensures)", key, en.Text))
		}
		c.assume(Implies(And(append([]Term{ex.rch}, dom...)...), ex.evalBool(post, en)))
	}
	if len(ct.Ensures) > 0 && ex.parent == nil {
		// vacuity guard: the callee's contract must not contradict what is known at the call site
		cv := c.obligeNamed(fmt.Sprintf("cover.call.%s@%s", shortKey(key), ex.callSiteID("cover:"+key)), "cover", pos,
			"the call returns under the callee's contract (its postconditions are consistent here)", ex.rch, tTrue)
		cv.Cover = true
		cv.BaseLen = baseLen
	}
	return rv
}

func shortKey(key string) string {
	key = strings.ReplaceAll(key, modulePath+"/internal/", "")
	key = strings.ReplaceAll(key, modulePath+"/", "")
	return sanitizeSym(key)
}

// callSiteID numbers call sites of the same callee within the caller (stable under unrelated edits).
func (ex *Exec) callSiteID(key string) string {
	root := ex
	for root.parent != nil {
		root = root.parent
	}
	if root.callN == nil {
		root.callN = map[string]int{}
	}
	root.callN[key]++
	return fmt.Sprintf("%d", root.callN[key])
}

// havocDeclared havocs the locations named in a modifies clause.
// Forms:  x.f (field of the struct x points to), x[*] (elements of slice x), *x (box), heap (everything),
// T.f (field f of every T), alloc
func (ex *Exec) havocDeclared(ct *Contract, env *Env, args []Val, names []string) {
	c := ex.c
	for _, m := range ct.Modifies {
		switch {
		case m == "heap" || m == "all":
			ex.havocAllKeepingPrivateLocals()
			ex.bumpAlloc()
		case m == "alloc":
			ex.bumpAlloc()
		case strings.HasSuffix(m, "[*]"):
			e, err := parseContractExpr(strings.TrimSuffix(m, "[*]"))
			if err != nil {
				panic(unsupported("modifies %q: %v", m, err))
			}
			v := env.eval(e)
			sl, ok := v.Ty.Underlying().(*types.Slice)
			if !ok {
				panic(unsupported("modifies %q: not a slice", m))
			}
			// only the elements of this slice's backing array change
			k := c.keyElem(sl.Elem())
			info := c.heapSorts[k]
			h := c.heapGet(ex.st, k)
			na := c.freshConst("mod.arr", ArraySort(c.idxSort(), info.elem))
			// elements outside [off, off+len) keep their values
			oldArr := Select(h, sliceArr(v.T), ArraySort(c.idxSort(), info.elem))
			if c.Mode == ArithInt {
				c.assume(T(SBool, "(forall ((i Int)) (! (=> (or (< i (s.off %[1]s)) (>= i (+ (s.off %[1]s) (s.len %[1]s)))) (= (select %[2]s i) (select %[3]s i))) :pattern ((select %[2]s i))))", v.T.S, na.S, oldArr.S))
				if isInteger(sl.Elem()) {
					c.assume(T(SBool, "(forall ((i Int)) (! %s :pattern ((select %s i))))", c.inRange(Term{fmt.Sprintf("(select %s i)", na.S), SInt}, sl.Elem()).S, na.S))
				}
			}
			c.heapSet(ex.st, k, Store(h, sliceArr(v.T), na))
		case strings.HasPrefix(m, "*"):
			e, err := parseContractExpr(m[1:])
			if err != nil {
				panic(unsupported("modifies %q: %v", m, err))
			}
			v := env.eval(e)
			pt := v.Ty.Underlying().(*types.Pointer)
			l := ex.locOfRef(v.T, pt.Elem())
			x := c.freshConst("mod", c.sortOf(pt.Elem()))
			c.assume(ex.typeFacts(x, pt.Elem()))
			ex.storeLoc(ex.st, l, x)
		default:
			// x.f
			dot := strings.LastIndex(m, ".")
			if dot < 0 {
				panic(unsupported("modifies %q", m))
			}
			base, fld := m[:dot], m[dot+1:]
			// type-level T.f ?
			if t := env.resolveTypeName(base); t != nil {
				st := t.Underlying().(*types.Struct)
				for i := 0; i < st.NumFields(); i++ {
					if st.Field(i).Name() == fld || fld == "*" {
						c.heapHavoc(ex.st, c.keyField(t, i))
					}
				}
				continue
			}
			e, err := parseContractExpr(base)
			if err != nil {
				panic(unsupported("modifies %q: %v", m, err))
			}
			v := env.eval(e)
			pt, ok := v.Ty.Underlying().(*types.Pointer)
			if !ok {
				panic(unsupported("modifies %q: base is not a pointer", m))
			}
			st := pt.Elem().Underlying().(*types.Struct)
			found := false
			for i := 0; i < st.NumFields(); i++ {
				if st.Field(i).Name() == fld || fld == "*" {
					found = true
					ft := st.Field(i).Type()
					x := c.freshConst("mod."+fld, c.sortOf(ft))
					c.assume(ex.typeFacts(x, ft))
					ex.storeLoc(ex.st, &Loc{Kind: LField, Ref: v.T, StructT: pt.Elem(), Field: i, Ty: ft}, x)
				}
			}
			if !found {
				panic(unsupported("modifies %q: no such field", m))
			}
		}
	}
}

func (e *Env) resolveTypeName(s string) types.Type {
	x, err := parseExprRaw(s)
	if err != nil {
		return nil
	}
	if id, ok := x.(interface{ String() string }); ok {
		_ = id
	}
	t := e.resolveType(x)
	if t == nil {
		return nil
	}
	if _, ok := t.Underlying().(*types.Struct); !ok {
		return nil
	}
	// an identifier that is also a variable is not a type
	return t
}

// havocExternalArgs: an external function may write through the references it is handed.
func (ex *Exec) havocExternalArgs(args []Val) {
	c := ex.c
	seen := map[string]bool{}
	all := false
	var visit func(t types.Type, depth int)
	visit = func(t types.Type, depth int) {
		k := typeKey(t)
		if seen[k] || depth > 6 {
			return
		}
		seen[k] = true
		if isTimeTime(t) {
			return
		}
		if _, op := opaqueNamed(t); op {
			return
		}
		switch u := t.Underlying().(type) {
		case *types.Pointer:
			el := u.Elem()
			if isTimeTime(el) {
				c.heapHavoc(ex.st, c.keyBox(el))
				return
			}
			if _, op := opaqueNamed(el); op {
				return
			}
			switch eu := el.Underlying().(type) {
			case *types.Struct:
				for i := 0; i < eu.NumFields(); i++ {
					c.heapHavoc(ex.st, c.keyField(el, i))
					visit(eu.Field(i).Type(), depth+1)
				}
			case *types.Array:
				c.heapHavoc(ex.st, c.keyElem(eu.Elem()))
				visit(eu.Elem(), depth+1)
			default:
				c.heapHavoc(ex.st, c.keyBox(el))
				visit(el, depth+1)
			}
		case *types.Slice:
			c.heapHavoc(ex.st, c.keyElem(u.Elem()))
			visit(u.Elem(), depth+1)
		case *types.Map:
			c.heapHavoc(ex.st, c.keyMapHas(u))
			c.heapHavoc(ex.st, c.keyMapVal(u))
			c.heapHavoc(ex.st, c.keyMapLen(u))
			visit(u.Elem(), depth+1)
		case *types.Struct:
			for i := 0; i < u.NumFields(); i++ {
				visit(u.Field(i).Type(), depth+1)
			}
		case *types.Array:
			visit(u.Elem(), depth+1)
		case *types.Interface, *types.Signature:
			all = true
		}
	}
	for _, a := range args {
		if a.Ty != nil {
			visit(a.Ty, 0)
		}
	}
	if all {
		ex.havocAllKeepingPrivateLocals()
	}
	ex.bumpAlloc()
}

// havocForCall havocs what a callee without contract may modify.
func (ex *Exec) havocForCall(callee *ssa.Function, args []Val, p token.Pos) {
	c := ex.c
	w := ex.w
	if callee == nil {
		ex.havocAllKeepingPrivateLocals()
		ex.bumpAlloc()
		ex.flushPendingHavoc()
		return
	}
	if isPureExternal(callee) {
		if hasCallbackArg(callee, args) {
			// a library function that is handed a function value runs it (filepath.WalkDir, strings.Map, ...):
			// the callback may write every variable it captured and anything reachable from them, so the
			// call is not pure for the caller even though the library function itself touches nothing
			known := true
			ms := newModSet()
			for _, a := range args {
				if a.Ty == nil {
					continue
				}
				if _, isFn := a.Ty.Underlying().(*types.Signature); !isFn {
					continue
				}
				if a.Fn == nil || len(a.Fn.Blocks) == 0 {
					known = false
					break
				}
				ms.union(w.modOfRec(a.Fn, 1, map[*ssa.Function]bool{}))
			}
			if known {
				// every callback is a statically known function: the call modifies what those functions may modify
				c.note("%s: call of %s runs the function value it is handed: its inferred frame is havoc'd", ex.fn.Name(), callee.String())
				ms.register(c)
				ex.applyMods(ms, "callback of "+callee.String())
				ex.bumpAlloc()
			} else {
				c.note("%s: call of %s receives a function value: the callback may run, heap havoc'd", ex.fn.Name(), callee.String())
				ex.havocAllKeepingPrivateLocals()
				ex.bumpAlloc()
			}
		}
		ex.flushPendingHavoc()
		return
	}
	if isLogFunc(callee) {
		c.trust("logging calls are pure")
		ex.flushPendingHavoc()
		return
	}
	pp := funcPkgPath(callee)
	if !strings.HasPrefix(pp, modulePath) || len(callee.Blocks) == 0 {
		c.note("%s: call of %s without contract: arguments' reachable heap havoc'd", ex.fn.Name(), callee.String())
		ex.havocExternalArgs(args)
		ex.flushPendingHavoc()
		return
	}
	ms := w.modOf(c, callee)
	ex.applyMods(ms, "call of "+callee.String())
	ex.bumpAlloc()
	ex.flushPendingHavoc()
}

// applyMods havocs an inferred frame.
func (ex *Exec) applyMods(ms *modSet, what string) {
	c := ex.c
	switch {
	case ms.big:
		c.note("%s: %s: large inferred frame (%d heap keys): everything else known so far is preserved", ex.fn.Name(), what, len(ms.descs))
		ex.havocBig(ms)
	case ms.all:
		c.note("%s: %s: inferred modifies = everything", ex.fn.Name(), what)
		ex.havocAllKeepingPrivateLocals()
	default:
		for _, k := range sortedKeys(ms.keys) {
			c.heapHavoc(ex.st, k)
		}
	}
}

var purePkgs = map[string]bool{
	"strings": true, "strconv": true, "unicode": true, "unicode/utf8": true, "math": true, "math/bits": true,
	"errors": true, "path": true, "path/filepath": true, "net/url": true, "regexp": true, "time": true,
	"encoding/hex": true, "encoding/base64": true, "crypto/sha256": true, "crypto/subtle": true, "net": true,
	"slices": false, "sort": false, "bytes": true, "fmt": true, "reflect": true, "net/netip": true, "mime": true,
	"net/textproto": true, "html": true, "cmp": true, "maps": false, "context": true,
}

var impureNames = map[string]bool{
	"fmt.Fprintf": true, "fmt.Fprint": true, "fmt.Fprintln": true, "fmt.Sscanf": true, "fmt.Sscan": true, "fmt.Fscan": true,
	"fmt.Printf": true, "fmt.Println": true, "fmt.Print": true,
	"(*bytes.Buffer).Write": true, "(*bytes.Buffer).WriteString": true, "(*bytes.Buffer).WriteByte": true, "(*bytes.Buffer).Read": true,
	"(*bytes.Buffer).ReadFrom": true, "(*bytes.Buffer).Reset": true, "(*bytes.Buffer).WriteTo": true, "(*bytes.Reader).Read": true,
	"(*strings.Builder).WriteString": true, "(*strings.Builder).WriteByte": true, "(*strings.Builder).Write": true, "(*strings.Builder).WriteRune": true,
	"(*strings.Reader).Read": true, "(*time.Timer).Reset": true, "(*time.Timer).Stop": true, "(*time.Ticker).Stop": true,
	"time.Sleep": true, "time.NewTimer": true, "time.AfterFunc": true, "time.NewTicker": true,
	"(reflect.Value).Set": true, "(reflect.Value).SetInt": true, "(reflect.Value).SetString": true, "(reflect.Value).SetBool": true,
	"(reflect.Value).SetUint": true, "(reflect.Value).SetFloat": true, "(reflect.Value).SetMapIndex": true, "(reflect.Value).Call": true,
	"reflect.Copy": true, "(reflect.Value).SetLen": true,
	"net.Listen": true, "net.Dial": true, "net.ListenPacket": true, "net.DialTimeout": true, "net.ListenUDP": true,
	"(*net/url.URL).UnmarshalBinary": true, "(*time.Time).UnmarshalJSON": true, "(*time.Time).UnmarshalText": true,
	"(*regexp.Regexp).Longest": true, "bytes.NewBuffer": false,
}

// hasCallbackArg: some argument of the call is a function value (closure, method value or function variable).
func hasCallbackArg(callee *ssa.Function, args []Val) bool {
	for _, a := range args {
		if a.Fn != nil {
			return true
		}
		if a.Ty != nil {
			if _, ok := a.Ty.Underlying().(*types.Signature); ok {
				return true
			}
		}
	}
	if callee != nil && callee.Signature != nil {
		ps := callee.Signature.Params()
		for i := 0; i < ps.Len(); i++ {
			if _, ok := ps.At(i).Type().Underlying().(*types.Signature); ok {
				return true
			}
		}
	}
	return false
}

// isPureExternal: standard-library functions that do not modify memory reachable from the module.
func isPureExternal(fn *ssa.Function) bool {
	pp := funcPkgPath(fn)
	if strings.HasPrefix(pp, modulePath) {
		return false
	}
	if impureNames[fn.String()] {
		return false
	}
	return purePkgs[pp]
}

// ---------------------------------------------------------------------------
// interface method invocation

func (ex *Exec) invoke(cc *ssa.CallCommon, p token.Pos) *Val {
	c := ex.c
	w := ex.w
	recv := ex.val(cc.Value)
	args := append([]Val{recv}, ex.argVals(cc)...)
	m := cc.Method
	name := m.FullName() // (io.Reader).Read
	{
		sig := m.Type().(*types.Signature)
		anames := []string{"recv"}
		for i := 0; i < sig.Params().Len(); i++ {
			anames = append(anames, sig.Params().At(i).Name())
		}
		ex.assertCalls(name, anames, args, p)
	}
	if ct, ok := w.Stubs[name]; ok {
		sig := m.Type().(*types.Signature)
		names := []string{"recv"}
		for i := 0; i < sig.Params().Len(); i++ {
			n := sig.Params().At(i).Name()
			if n == "" || n == "_" {
				n = fmt.Sprintf("arg%d", i+1) // unnamed parameter of an interface method
			}
			names = append(names, n)
		}
		return ex.applyContract(ct, name, sig, names, args, p, nil)
	}
	if isLogMethod(m) {
		c.trust("logging calls are pure")
		ex.flushPendingHavoc()
		return nil
	}
	if m.Name() == "Error" && m.Type().(*types.Signature).Params().Len() == 0 {
		ex.flushPendingHavoc()
		return ex.freshResults(m.Type().(*types.Signature).Results(), "errstr")
	}
	// resolve implementations inside the module
	impls := w.implementations(cc.Value.Type(), m)
	ms := &modSet{keys: map[string]bool{}}
	if len(impls) == 0 {
		c.note("%s: interface call %s with no in-module implementation: arguments' reachable heap havoc'd", ex.fn.Name(), name)
		ex.havocExternalArgs(args[1:])
		ex.flushPendingHavoc()
		return ex.freshResults(m.Type().(*types.Signature).Results(), "iv."+m.Name())
	}
	ms = newModSet()
	for _, f := range impls {
		if fct, _ := w.contractFor(f); fct != nil && fct.Pure {
			continue
		}
		ms.union(w.modOfRec(f, 0, map[*ssa.Function]bool{}))
	}
	ms.register(c)
	ex.applyMods(ms, "interface call "+name)
	ex.bumpAlloc()
	ex.flushPendingHavoc()
	return ex.freshResults(m.Type().(*types.Signature).Results(), "iv."+m.Name())
}

func isLogMethod(m *types.Func) bool {
	if m.Name() != "Log" {
		return false
	}
	sig := m.Type().(*types.Signature)
	return sig.Params().Len() == 3 && sig.Variadic() && sig.Results().Len() == 0
}

// ---------------------------------------------------------------------------
// inlining

func (ex *Exec) inline(callee *ssa.Function, args []Val, binds []Val, p token.Pos) *Val {
	c := ex.c
	sub := &Exec{w: ex.w, c: c, fn: callee, vals: map[ssa.Value]Val{}, exit: map[*ssa.BasicBlock]*State{}, reach: map[*ssa.BasicBlock]Term{},
		st: ex.st, entry: ex.entry, depth: ex.depth + 1, parent: ex, params: map[string]Val{}}
	sub.inlineGuard = ex.rch
	for i, prm := range callee.Params {
		if i < len(args) {
			sub.vals[prm] = ex.coerce(args[i], prm.Type())
		}
	}
	for i, fv := range callee.FreeVars {
		if i < len(binds) {
			sub.vals[fv] = binds[i]
		}
	}
	sub.run()
	ex.st = sub.mergeReturns()
	ex.pendingHavoc = append(ex.pendingHavoc, sub.pendingHavoc...)
	res := callee.Signature.Results()
	if len(sub.rets) == 0 {
		// callee never returns (panics): the rest of this path is unreachable
		c.assume(Not(ex.rch))
		return ex.freshResults(res, "noret")
	}
	switch res.Len() {
	case 0:
		return nil
	case 1:
		v := sub.mergedResult(0, res.At(0).Type())
		return &v
	}
	vs := make([]Val, res.Len())
	for i := range vs {
		vs[i] = sub.mergedResult(i, res.At(i).Type())
	}
	return &Val{Tuple: vs, Ty: res}
}

func (ex *Exec) mergeReturns() *State {
	if len(ex.rets) == 0 {
		return ex.st
	}
	states := make([]*State, len(ex.rets))
	conds := make([]Term, len(ex.rets))
	for i, r := range ex.rets {
		states[i] = r.state
		conds[i] = r.guard
	}
	return ex.mergeStates(states, conds, "ret")
}

func (ex *Exec) mergedResult(i int, t types.Type) Val {
	vs := make([]Term, len(ex.rets))
	cs := make([]Term, len(ex.rets))
	var fn *ssa.Function
	var bind []Val
	for j, r := range ex.rets {
		v := ex.coerce(r.results[i], t)
		vs[j] = v.T
		cs[j] = r.guard
		if len(ex.rets) == 1 {
			fn, bind = v.Fn, v.Bind
		}
	}
	return Val{T: ex.c.define("ret", iteChain(cs, vs)), Ty: t, Fn: fn, Bind: bind}
}

// ---------------------------------------------------------------------------
// builtins

func (ex *Exec) builtin(b *ssa.Builtin, cc *ssa.CallCommon, p token.Pos) *Val {
	c := ex.c
	intT := types.Typ[types.Int]
	switch b.Name() {
	case "len":
		x := ex.val(cc.Args[0])
		env := &Env{ex: ex, st: ex.st}
		v := env.lenOf(Val{T: x.T, Ty: cc.Args[0].Type()})
		return &v
	case "cap":
		x := ex.val(cc.Args[0])
		if _, ok := cc.Args[0].Type().Underlying().(*types.Slice); ok {
			return &Val{T: ex.sliceCap(x.T), Ty: intT}
		}
		v := ex.freshVal("cap", intT)
		return &v
	case "min", "max":
		acc := ex.val(cc.Args[0])
		for _, a := range cc.Args[1:] {
			y := ex.val(a)
			op := token.LSS
			if b.Name() == "max" {
				op = token.GTR
			}
			cmp := ex.binop(op, acc, y, nil, p, false)
			acc = Val{T: c.define("mm", Ite(cmp.T, acc.T, y.T)), Ty: acc.Ty}
		}
		return &acc
	case "append":
		return ex.doAppend(cc, p)
	case "copy":
		return ex.doCopy(cc, p)
	case "delete":
		mt := cc.Args[0].Type().Underlying().(*types.Map)
		m := ex.val(cc.Args[0]).T
		k := ex.coerce(ex.val(cc.Args[1]), mt.Key()).T
		ex.mapDelete(ex.st, mt, m, k)
		return nil
	case "panic":
		if ex.safetyEnabled("panic") {
			ex.obligeSafety("panic", ex.pos(p), "explicit panic is unreachable", tFalse)
		}
		return nil
	case "print", "println":
		return nil
	case "close":
		c.trust("channel close modelled as a no-op (blocking and delivery not modelled)")
		return nil
	case "clear":
		switch u := cc.Args[0].Type().Underlying().(type) {
		case *types.Map:
			c.heapHavoc(ex.st, c.keyMapHas(u))
			c.heapHavoc(ex.st, c.keyMapLen(u))
			return nil
		}
	case "new":
	case "ssa:deferstack":
		return &Val{T: Term{"0", SRef}, Ty: b.Type().(*types.Signature).Results().At(0).Type()}
	case "ssa:wrapnilchk":
		v := ex.val(cc.Args[0])
		return &v
	case "recover":
		v := ex.freshVal("recover", b.Type().(*types.Signature).Results().At(0).Type())
		return &v
	}
	panic(unsupported("builtin %s", b.Name()))
}

func (ex *Exec) doAppend(cc *ssa.CallCommon, p token.Pos) *Val {
	c := ex.c
	st := cc.Args[0].Type()
	sl := st.Underlying().(*types.Slice)
	s := ex.val(cc.Args[0]).T
	k := c.keyElem(sl.Elem())
	info := c.heapSorts[k]
	arrSort := ArraySort(c.idxSort(), info.elem)
	// second argument is a slice (possibly a string for []byte)
	var addLen Term
	var elemAt func(i Term) Term
	a1 := ex.val(cc.Args[1])
	if isString(cc.Args[1].Type()) {
		addLen = T(c.idxSort(), "(str.len %s)", a1.T.S)
		elemAt = func(i Term) Term { return T(info.elem, "(str.at %s %s)", a1.T.S, i.S) }
	} else {
		addLen = ex.sliceLen(a1.T)
		h0 := c.heapGet(ex.st, k)
		srcArr := c.define("app.src", Select(h0, sliceArr(a1.T), arrSort))
		elemAt = func(i Term) Term { return Select(srcArr, ex.idxAdd(ex.sliceOff(a1.T), i), info.elem) }
	}
	addLen = c.define("app.n", addLen)
	newLen := c.define("app.len", ex.idxAdd(ex.sliceLen(s), addLen))
	fits := c.define("app.fits", ex.idxLe(newLen, ex.sliceCap(s)))
	h := c.heapGet(ex.st, k)
	// in place: same array, elements [off+len, off+newLen) written
	// realloc: fresh array, elements copied
	ref := ex.allocRef()
	newCap := c.freshConst("app.cap", c.idxSort())
	c.assume(ex.idxLe(newLen, newCap))
	if c.Mode == ArithInt {
		c.assume(T(SBool, "(<= %s 281474976710655)", newCap.S))
	}
	// the result is a declared constant (not a define-fun macro): it appears inside E-matching patterns of the facts
	// below and of contract quantifiers, where an if-then-else term is not allowed
	resSlice := c.freshConst("app.res", SSl)
	c.assume(Eq(resSlice, Ite(fits,
		ex.mkSlice(sliceArr(s), ex.sliceOff(s), newLen, ex.sliceCap(s)),
		ex.mkSlice(ref, c.idxLit(0), newLen, newCap))))
	// contents of the result array
	na := c.freshConst("app.arr", arrSort)
	oldArr := c.define("app.old", Select(h, sliceArr(s), arrSort))
	resOff := c.define("app.off", Ite(fits, ex.sliceOff(s), c.idxLit(0)))
	// single appended element: express directly, otherwise quantify
	if litIs(addLen, 1) || isMkSliceLen1(a1.T) {
		// na = store(base, resOff+len, elem0) where base is old array (in place) or a copy
	}
	if c.Mode == ArithInt {
		// prefix preserved
		c.assume(T(SBool, "(forall ((i Int)) (! (=> (and (<= 0 i) (< i (s.len %[1]s))) (= (select %[2]s (+ %[3]s i)) (select %[4]s (+ (s.off %[1]s) i)))) :pattern ((select %[2]s (+ %[3]s i)))))", s.S, na.S, resOff.S, oldArr.S))
		// in place: everything outside the appended window is unchanged
		c.assume(T(SBool, "(=> %[1]s (forall ((j Int)) (! (=> (or (< j (+ (s.off %[2]s) (s.len %[2]s))) (>= j (+ (s.off %[2]s) %[3]s))) (= (select %[4]s j) (select %[5]s j))) :pattern ((select %[4]s j)))))", fits.S, s.S, newLen.S, na.S, oldArr.S))
		// appended elements
		if n := litInt(addLen); n != nil && n.IsInt64() && n.Int64() <= 4 {
			for i := int64(0); i < n.Int64(); i++ {
				c.assume(Eq(Select(na, T(SInt, "(+ %s (s.len %s) %d)", resOff.S, s.S, i), info.elem), elemAt(c.idxLit(i))))
			}
		} else {
			c.fresh++
			q := fmt.Sprintf("k!a%d", c.fresh)
			c.assume(T(SBool, "(forall ((%[1]s Int)) (! (=> (and (<= 0 %[1]s) (< %[1]s %[2]s)) (= (select %[3]s (+ %[4]s (s.len %[5]s) %[1]s)) %[6]s)) :pattern ((select %[3]s (+ %[4]s (s.len %[5]s) %[1]s)))))",
				q, addLen.S, na.S, resOff.S, s.S, elemAt(Term{q, SInt}).S))
		}
		if isInteger(sl.Elem()) {
			c.assume(T(SBool, "(forall ((i Int)) (! %s :pattern ((select %s i))))", c.inRange(Term{fmt.Sprintf("(select %s i)", na.S), SInt}, sl.Elem()).S, na.S))
		}
		if _, isSl := sl.Elem().Underlying().(*types.Slice); isSl {
			c.assume(T(SBool, "(forall ((i Int)) (! %s :pattern ((select %s i))))", c.sliceWF(Term{fmt.Sprintf("(select %s i)", na.S), SSl}).S, na.S))
		}
	} else {
		c.note("append in bit-vector mode: contents of the result are unconstrained")
	}
	c.heapSet(ex.st, k, Store(h, sliceArr(resSlice), na))
	if c.Mode == ArithInt && !hasBoundVar(s.S) && !hasBoundVar(resSlice.S) {
		// the same facts through the element accessor used by contract expressions (index argument bare, so that
		// E-matching finds them from quantified invariants over the result): the old elements keep their positions,
		// the appended ones follow
		hPost := c.heapGet(ex.st, k)
		bi := Term{"i!ap", c.idxSort()}
		c.assume(T(SBool, "(forall ((i!ap Int)) (! (=> (and (<= 0 i!ap) (< i!ap (s.len %s))) (= %s %s)) :pattern (%s)))", s.S,
			c.elemAt(k, hPost, resSlice, bi).S, c.elemAt(k, h, s, bi).S, c.elemAt(k, hPost, resSlice, bi).S))
		if n := litInt(addLen); n != nil && n.IsInt64() && n.Int64() <= 4 {
			for i := int64(0); i < n.Int64(); i++ {
				c.assume(Eq(c.elemAt(k, hPost, resSlice, T(c.idxSort(), "(+ (s.len %s) %d)", s.S, i)), elemAt(c.idxLit(i))))
			}
		}
	}
	return &Val{T: resSlice, Ty: st}
}

func litIs(t Term, v int64) bool {
	b := litInt(t)
	return b != nil && b.IsInt64() && b.Int64() == v
}

func isMkSliceLen1(t Term) bool { return false }

func (ex *Exec) doCopy(cc *ssa.CallCommon, p token.Pos) *Val {
	c := ex.c
	dst := ex.val(cc.Args[0]).T
	src := ex.val(cc.Args[1])
	sl := cc.Args[0].Type().Underlying().(*types.Slice)
	k := c.keyElem(sl.Elem())
	info := c.heapSorts[k]
	arrSort := ArraySort(c.idxSort(), info.elem)
	var srcLen Term
	var elemAt func(i Term) Term
	h := c.heapGet(ex.st, k)
	if isString(cc.Args[1].Type()) {
		srcLen = T(c.idxSort(), "(str.len %s)", src.T.S)
		elemAt = func(i Term) Term { return T(info.elem, "(str.at %s %s)", src.T.S, i.S) }
	} else {
		srcLen = ex.sliceLen(src.T)
		srcArr := c.define("cp.src", Select(h, sliceArr(src.T), arrSort))
		elemAt = func(i Term) Term { return Select(srcArr, ex.idxAdd(ex.sliceOff(src.T), i), info.elem) }
	}
	n := c.define("cp.n", Ite(ex.idxLe(srcLen, ex.sliceLen(dst)), srcLen, ex.sliceLen(dst)))
	oldArr := c.define("cp.old", Select(h, sliceArr(dst), arrSort))
	na := c.freshConst("cp.arr", arrSort)
	if c.Mode == ArithInt {
		c.fresh++
		q := fmt.Sprintf("k!c%d", c.fresh)
		c.assume(T(SBool, "(forall ((%[1]s Int)) (! (= (select %[2]s %[1]s) (ite (and (<= (s.off %[3]s) %[1]s) (< %[1]s (+ (s.off %[3]s) %[4]s))) %[5]s (select %[6]s %[1]s))) :pattern ((select %[2]s %[1]s))))",
			q, na.S, dst.S, n.S, elemAt(T(SInt, "(- %s (s.off %s))", q, dst.S)).S, oldArr.S))
	}
	c.heapSet(ex.st, k, Store(h, sliceArr(dst), na))
	return &Val{T: n, Ty: types.Typ[types.Int]}
}


// havocAllKeepingPrivateLocals havocs the whole heap except the boxes of local variables that nobody else can reach
// yet: a local that escapes ONLY by being captured in function literals of this function stays private until the first
// such literal has been created (boxes of captured variables live in the heap; before the closure exists no callee can
// hold their address). Needed wherever a parameter is captured by a closure created at the end of a long function.
func (ex *Exec) havocAllKeepingPrivateLocals() {
	type saved struct {
		loc *Loc
		v   Term
	}
	var keep []saved
	root := ex
	if root.fn != nil && root.parent == nil {
		for _, b := range root.fn.Blocks {
			for _, in := range b.Instrs {
				a, ok := in.(*ssa.Alloc)
				if !ok || !a.Heap || root.cells[a] || root.madeClosure[a] || !closureOnlyEscape(a) {
					continue
				}
				v, ok := root.vals[a]
				if !ok || v.Loc != nil {
					continue
				}
				t := a.Type().(*types.Pointer).Elem()
				loc := root.locOfRef(v.T, t)
				if loc.Kind != LBox {
					continue
				}
				keep = append(keep, saved{loc, root.loadLoc(root.st, loc)})
			}
		}
	}
	ex.c.heapHavocAll(ex.st)
	for _, k := range keep {
		root.storeLoc(root.st, k.loc, k.v)
	}
	if len(keep) > 0 {
		ex.c.trust("boxes of local variables that escape only into function literals not created yet are unaffected by callee effects")
	}
}

// closureOnlyEscape: every use of the heap-allocated local is a load, a store to it, or a capture by a function literal.
func closureOnlyEscape(a *ssa.Alloc) bool {
	refs := a.Referrers()
	if refs == nil {
		return false
	}
	for _, r := range *refs {
		switch r := r.(type) {
		case *ssa.UnOp, *ssa.DebugRef, *ssa.MakeClosure:
		case *ssa.Store:
			if r.Addr != a {
				return false
			}
		default:
			return false
		}
	}
	return true
}
