package main

// Facts about package-level regular expressions compiled from string literals:
// the pattern text is attached to the variable (reOf), and for patterns of the shape
// ^[class]+$ / ^[class]*$ over ASCII classes the match relation is defined by the character
// class, computed from the literal with regexp/syntax on every run (editing the literal
// changes the verification condition).

import (
	"fmt"
	"go/constant"
	"go/types"
	"regexp/syntax"
	"strconv"
	"strings"

	"golang.org/x/tools/go/ssa"
)

// globalRegexpLiteral returns the literal a package-level *regexp.Regexp is compiled from,
// provided the variable is assigned exactly once (in the package initialiser).
func globalRegexpLiteral(g *ssa.Global) (string, bool) {
	if g.Pkg == nil {
		return "", false
	}
	lit := ""
	found := 0
	for _, f := range allFunctions(g.Pkg) {
		for _, b := range f.Blocks {
			for _, in := range b.Instrs {
				st, ok := in.(*ssa.Store)
				if !ok || st.Addr != g {
					continue
				}
				found++
				call, ok := st.Val.(*ssa.Call)
				if !ok {
					return "", false
				}
				callee := call.Call.StaticCallee()
				if callee == nil || (callee.String() != "regexp.MustCompile") || len(call.Call.Args) != 1 {
					return "", false
				}
				k, ok := call.Call.Args[0].(*ssa.Const)
				if !ok || k.Value == nil || k.Value.Kind() != constant.String {
					return "", false
				}
				lit = constant.StringVal(k.Value)
			}
		}
	}
	// the synthetic package initialiser is not in allFunctions
	initSeen := false
	for _, f := range allFunctions(g.Pkg) {
		if f == g.Pkg.Func("init") {
			initSeen = true
		}
	}
	if init := g.Pkg.Func("init"); init != nil && !initSeen {
		for _, b := range init.Blocks {
			for _, in := range b.Instrs {
				st, ok := in.(*ssa.Store)
				if !ok || st.Addr != g {
					continue
				}
				found++
				call, ok := st.Val.(*ssa.Call)
				if !ok {
					return "", false
				}
				callee := call.Call.StaticCallee()
				if callee == nil || callee.String() != "regexp.MustCompile" || len(call.Call.Args) != 1 {
					return "", false
				}
				k, ok := call.Call.Args[0].(*ssa.Const)
				if !ok || k.Value == nil || k.Value.Kind() != constant.String {
					return "", false
				}
				lit = constant.StringVal(k.Value)
			}
		}
	}
	if found != 1 {
		return "", false
	}
	return lit, true
}

// asciiClassPattern recognises ^[class]+$ and ^[class]*$ and returns the byte ranges of the class.
func asciiClassPattern(lit string) (ranges [][2]int, minLen int, ok bool) {
	re, err := syntax.Parse(lit, syntax.Perl)
	if err != nil {
		return nil, 0, false
	}
	re = re.Simplify()
	if re.Op != syntax.OpConcat || len(re.Sub) != 3 {
		return nil, 0, false
	}
	if re.Sub[0].Op != syntax.OpBeginText || re.Sub[2].Op != syntax.OpEndText {
		return nil, 0, false
	}
	mid := re.Sub[1]
	switch mid.Op {
	case syntax.OpPlus:
		minLen = 1
	case syntax.OpStar:
		minLen = 0
	default:
		return nil, 0, false
	}
	cc := mid.Sub[0]
	switch cc.Op {
	case syntax.OpCharClass:
		for i := 0; i+1 < len(cc.Rune); i += 2 {
			lo, hi := int(cc.Rune[i]), int(cc.Rune[i+1])
			if hi > 127 {
				return nil, 0, false
			}
			ranges = append(ranges, [2]int{lo, hi})
		}
	case syntax.OpLiteral:
		if len(cc.Rune) != 1 || cc.Rune[0] > 127 {
			return nil, 0, false
		}
		ranges = append(ranges, [2]int{int(cc.Rune[0]), int(cc.Rune[0])})
	default:
		return nil, 0, false
	}
	return ranges, minLen, true
}

func (ex *Exec) globalRegexpFacts(g *ssa.Global, v Term) {
	c := ex.c
	pt, ok := g.Type().(*types.Pointer)
	if !ok {
		return
	}
	if typeKey(pt.Elem()) != "*regexp.Regexp" {
		return
	}
	lit, ok := globalRegexpLiteral(g)
	if !ok {
		return
	}
	env := &Env{ex: ex, st: ex.st, old: ex.st, vars: map[string]Val{"g": {T: v, Ty: pt.Elem()}}, pkg: g.Pkg.Pkg, where: "regexp literal of " + g.Name()}
	e, err := parseContractExpr("g != nil && reOf(g) == " + strconv.Quote(lit) + " && (reMatches(" + strconv.Quote(lit) + ", \"\") || true)")
	if err != nil {
		return
	}
	c.assume(env.eval(e).T)
	c.note("package variable %s is compiled once from the literal %q (reOf attached)", g.Name(), lit)
	ranges, minLen, ok := asciiClassPattern(lit)
	if !ok || c.Mode != ArithInt {
		return
	}
	key := "ax:reclass:" + lit
	if c.declKeys[key] {
		return
	}
	c.declKeys[key] = true
	var parts []string
	for _, r := range ranges {
		if r[0] == r[1] {
			parts = append(parts, fmt.Sprintf("(= (str.at s i) %d)", r[0]))
		} else {
			parts = append(parts, fmt.Sprintf("(and (<= %d (str.at s i)) (<= (str.at s i) %d))", r[0], r[1]))
		}
	}
	cls := "false"
	if len(parts) == 1 {
		cls = parts[0]
	} else if len(parts) > 1 {
		cls = "(or " + strings.Join(parts, " ") + ")"
	}
	l := c.strLit(lit)
	c.emit("(assert (forall ((s Str)) (! (= (sp.reMatches %s s) (and (>= (str.len s) %d) (forall ((i Int)) (! (=> (and (<= 0 i) (< i (str.len s))) %s) :pattern ((str.at s i)))))) :pattern ((sp.reMatches %s s)))))", l.S, minLen, cls, l.S)
	c.trust(fmt.Sprintf("regexp semantics of the literal %q: matches iff length >= %d and every byte is in the ASCII class (class computed with regexp/syntax)", lit, minLen))
}
