package main

// Contracts: //@ comment blocks in /repo (zz_verif_contracts.go), stubs and specs in /verif.

import (
	"fmt"
	"go/ast"
	"go/parser"
	"os"
	"path/filepath"
	"sort"
	"strconv"
	"strings"
)

type Clause struct {
	Kind string // requires ensures domain invariant assert-call ...
	Text string
	Expr ast.Expr
	Loop int
	Name string // optional label
	Assumed bool // "assumed-ensures": available to callers, not proved from the body (a stated assumption about a dependency)
	File string
	Line int
}

type LocalDef struct {
	Name   string
	Params []specParam
	Result string
	Text   string
	Expr   ast.Expr
	Rec    bool
	Base   ast.Expr
}

type Contract struct {
	PkgPath string
	Key     string
	Extern  bool
	Props   []string
	Arith   string
	Pure    bool

	Requires []*Clause
	Domain   []*Clause
	Ensures  []*Clause
	LoopInv  map[int][]*Clause
	Asserts  []*Clause // assert-call
	Modifies []string
	HasMod   bool
	Trust    map[string]bool
	Safety   map[string]bool // enabled safety kinds override
	NoSafety map[string]bool
	Defs     []*LocalDef
	Wraps    map[int]bool
	Fresh    bool   // result is a freshly allocated reference
	Havoc    string // extern: "all" | "none" | "" (default by args)
	Inline   bool
	SplitReturns bool // "returns split": postconditions are proved at every return separately (large functions)
	Opaque   []string // "opaque-call f": calls of f are over-approximated in this function (arbitrary results, inferred frame; f's contract is not used)
	Lemmas   []string
	LocalLemmas []*LocalLemma

	File string
	Line int
}

type FieldRange struct {
	Lo, Hi string
	File   string
	Line   int
}

type specParam struct {
	Name string
	Type string
}

type SpecFunc struct {
	Name   string
	Params []specParam
	Result string
	SMT    string // raw Int-mode body
	SMTBV  string // raw BV-mode body
	Text   string // body in contract language
	Expr   ast.Expr
	Rec    bool
	GoTwin string
	File   string
	Line   int
}

type Axiom struct {
	Name    string
	Text    string
	Expr    ast.Expr
	SMT     string
	Lemma   bool // to be proved (induction) before use
	Induct  string
	Params  []specParam
	Uses    []string // spec function names that trigger inclusion
	Props   []string // lemma: properties under which it is proved
	File    string
	Line    int
}

// convImplies rewrites  A ==> B  and  A <==> B  into implies(A, B) / iff(A, B).
func convImplies(s string) string {
	// split on depth-0 commas first
	parts := splitTop(s, ",")
	if len(parts) > 1 {
		for i := range parts {
			parts[i] = convImplies(parts[i])
		}
		return strings.Join(parts, ",")
	}
	if i := indexTop(s, "<==>"); i >= 0 {
		return "iff(" + convImplies(s[:i]) + ", " + convImplies(s[i+4:]) + ")"
	}
	if i := indexTop(s, "==>"); i >= 0 {
		return "implies(" + convImplies(s[:i]) + ", " + convImplies(s[i+3:]) + ")"
	}
	// recurse into parenthesised groups
	var b strings.Builder
	depth := 0
	start := -1
	inStr := byte(0)
	for i := 0; i < len(s); i++ {
		ch := s[i]
		if inStr != 0 {
			if ch == '\\' {
				if depth == 0 {
					b.WriteByte(ch)
					if i+1 < len(s) {
						b.WriteByte(s[i+1])
					}
				}
				i++
				continue
			}
			if ch == inStr {
				inStr = 0
			}
			if depth == 0 {
				b.WriteByte(ch)
			}
			continue
		}
		switch ch {
		case '"', '\'', '`':
			inStr = ch
			if depth == 0 {
				b.WriteByte(ch)
			}
		case '(', '[':
			if depth == 0 {
				b.WriteByte(ch)
				start = i + 1
			}
			depth++
		case ')', ']':
			depth--
			if depth == 0 {
				b.WriteString(convImplies(s[start:i]))
				b.WriteByte(ch)
			}
		default:
			if depth == 0 {
				b.WriteByte(ch)
			}
		}
	}
	return b.String()
}

func indexTop(s, sep string) int {
	depth := 0
	inStr := byte(0)
	for i := 0; i < len(s); i++ {
		ch := s[i]
		if inStr != 0 {
			if ch == '\\' {
				i++
			} else if ch == inStr {
				inStr = 0
			}
			continue
		}
		switch ch {
		case '"', '\'', '`':
			inStr = ch
		case '(', '[', '{':
			depth++
		case ')', ']', '}':
			depth--
		default:
			if depth == 0 && strings.HasPrefix(s[i:], sep) {
				if sep == "==>" && i > 0 && s[i-1] == '<' {
					continue
				}
				return i
			}
		}
	}
	return -1
}

func splitTop(s, sep string) []string {
	var out []string
	for {
		i := indexTop(s, sep)
		if i < 0 {
			out = append(out, s)
			return out
		}
		out = append(out, s[:i])
		s = s[i+len(sep):]
	}
}

func parseContractExpr(text string) (ast.Expr, error) {
	conv := convImplies(text)
	e, err := parser.ParseExpr(conv)
	if err != nil {
		return nil, fmt.Errorf("cannot parse %q (as %q): %v", text, conv, err)
	}
	return e, nil
}

type rawLine struct {
	text string
	file string
	line int
}

// readContractLines extracts //@ lines from a Go file (comment-only contracts file).
func readContractLines(path string) ([]rawLine, string, error) {
	data, err := os.ReadFile(path)
	if err != nil {
		return nil, "", err
	}
	var out []rawLine
	pkg := ""
	for i, l := range strings.Split(string(data), "\n") {
		t := strings.TrimRight(l, " \t\r")
		if strings.HasPrefix(t, "package ") {
			pkg = strings.TrimSpace(strings.TrimPrefix(t, "package "))
		}
		if strings.HasPrefix(t, "//@") {
			body := strings.TrimPrefix(t, "//@")
			if strings.HasPrefix(body, " ") {
				body = body[1:]
			}
			out = append(out, rawLine{body, path, i + 1})
		}
	}
	return out, pkg, nil
}

// specOverlay replaces spec/stub files of /verif for the selftest's engine canaries (never set by a check).
var specOverlay map[string][]byte

func readPlainLines(path string) ([]rawLine, error) {
	data, err := os.ReadFile(path)
	if ov, ok := specOverlay[path]; ok {
		data, err = ov, nil
	}
	if err != nil {
		return nil, err
	}
	var out []rawLine
	for i, l := range strings.Split(string(data), "\n") {
		t := strings.TrimRight(l, " \t\r")
		if strings.TrimSpace(t) == "" || strings.HasPrefix(strings.TrimSpace(t), "#") {
			continue
		}
		out = append(out, rawLine{t, path, i + 1})
	}
	return out, nil
}

// joinContinuations merges lines whose content starts with "|" into the previous line.
func joinContinuations(ls []rawLine) []rawLine {
	var out []rawLine
	for _, l := range ls {
		tr := strings.TrimSpace(l.text)
		if strings.HasPrefix(tr, "|") && len(out) > 0 {
			out[len(out)-1].text += " " + strings.TrimSpace(tr[1:])
			continue
		}
		out = append(out, l)
	}
	return out
}

func parseParams(s string) ([]specParam, error) {
	s = strings.TrimSpace(s)
	if s == "" {
		return nil, nil
	}
	var out []specParam
	for _, p := range splitTop(s, ",") {
		p = strings.TrimSpace(p)
		sp := strings.IndexAny(p, " \t")
		if sp < 0 {
			return nil, fmt.Errorf("parameter %q needs a type", p)
		}
		out = append(out, specParam{Name: p[:sp], Type: strings.TrimSpace(p[sp:])})
	}
	return out, nil
}

// parseSig parses  name(params) result [= body]
func parseSig(s string) (name string, params []specParam, result string, body string, err error) {
	op := strings.Index(s, "(")
	if op < 0 {
		return "", nil, "", "", fmt.Errorf("bad signature %q", s)
	}
	name = strings.TrimSpace(s[:op])
	depth := 0
	cl := -1
	for i := op; i < len(s); i++ {
		if s[i] == '(' {
			depth++
		} else if s[i] == ')' {
			depth--
			if depth == 0 {
				cl = i
				break
			}
		}
	}
	if cl < 0 {
		return "", nil, "", "", fmt.Errorf("bad signature %q", s)
	}
	params, err = parseParams(s[op+1 : cl])
	rest := strings.TrimSpace(s[cl+1:])
	if i := indexTop(rest, "="); i >= 0 && !strings.HasPrefix(rest[i:], "==") {
		body = strings.TrimSpace(rest[i+1:])
		rest = strings.TrimSpace(rest[:i])
	}
	result = rest
	return
}

// parseBlocks parses contract/stub/spec lines into the world.
func (w *World) parseBlocks(ls []rawLine, pkgPath string) error {
	ls = joinContinuations(ls)
	var cur *Contract
	var curSpec *SpecFunc
	var curAx *Axiom
	for _, l := range ls {
		text := l.text
		tr := strings.TrimSpace(text)
		if tr == "" || strings.HasPrefix(tr, "--") {
			continue
		}
		indented := strings.HasPrefix(text, " ") || strings.HasPrefix(text, "\t")
		fail := func(format string, args ...any) error {
			return fmt.Errorf("%s:%d: %s", l.file, l.line, fmt.Sprintf(format, args...))
		}
		if !indented {
			cur, curSpec, curAx = nil, nil, nil
			word, rest, _ := strings.Cut(tr, " ")
			rest = strings.TrimSpace(rest)
			switch word {
			case "func":
				key, err := parseFuncKey(rest)
				if err != nil {
					return fail("%v", err)
				}
				cur = &Contract{PkgPath: pkgPath, Key: key, LoopInv: map[int][]*Clause{}, Trust: map[string]bool{}, Safety: map[string]bool{}, NoSafety: map[string]bool{}, Wraps: map[int]bool{}, File: l.file, Line: l.line}
				k := pkgPath + "::" + key
				if _, dup := w.Contracts[k]; dup {
					return fail("duplicate contract for %s", k)
				}
				w.Contracts[k] = cur
			case "extern":
				cur = &Contract{Extern: true, Key: rest, LoopInv: map[int][]*Clause{}, Trust: map[string]bool{}, Safety: map[string]bool{}, NoSafety: map[string]bool{}, Wraps: map[int]bool{}, File: l.file, Line: l.line}
				if _, dup := w.Stubs[rest]; dup {
					return fail("duplicate stub for %s", rest)
				}
				w.Stubs[rest] = cur
			case "fieldinv":
				// fieldinv Type.Field range <lo> <hi> property C1, C2   (proved at every store, then available as a heap invariant)
				f := strings.Fields(rest)
				if len(f) < 4 || f[1] != "range" {
					return fail("expected: fieldinv Type.Field range <lo> <hi> [property ids]")
				}
				fi := &FieldInv{PkgPath: pkgPath, Lo: f[2], Hi: f[3], File: l.file, Line: l.line}
				tn, fn, ok := strings.Cut(f[0], ".")
				if !ok {
					return fail("fieldinv needs Type.Field")
				}
				fi.Type, fi.Field = tn, fn
				if len(f) > 5 && f[4] == "property" {
					for _, p := range strings.Split(strings.Join(f[5:], " "), ",") {
						fi.Props = append(fi.Props, strings.TrimSpace(p))
					}
				}
				w.FieldInvs = append(w.FieldInvs, fi)
			case "field":
				// field <struct type key>.<Field> range <lo> <hi>
				f := strings.Fields(rest)
				if len(f) != 4 || f[1] != "range" {
					return fail("expected: field <type>.<Field> range <lo> <hi>")
				}
				if w.FieldRanges == nil {
					w.FieldRanges = map[string]FieldRange{}
				}
				w.FieldRanges[f[0]] = FieldRange{Lo: f[2], Hi: f[3], File: l.file, Line: l.line}
			case "mapsum":
				// mapsum <name> <weight spec function> <map type as printed by go/types>
				f := strings.SplitN(rest, " ", 3)
				if len(f) != 3 {
					return fail("expected: mapsum <name> <weight spec> <map type>")
				}
				if w.MapSums == nil {
					w.MapSums = map[string]MapSum{}
				}
				w.MapSums[strings.TrimSpace(f[2])] = MapSum{Name: f[0], Weight: f[1], File: l.file, Line: l.line}
			case "spec":
				name, params, result, body, err := parseSig(rest)
				if err != nil {
					return fail("%v", err)
				}
				curSpec = &SpecFunc{Name: name, Params: params, Result: result, Text: body, File: l.file, Line: l.line}
				if body != "" {
					e, err := parseContractExpr(body)
					if err != nil {
						return fail("%v", err)
					}
					curSpec.Expr = e
				}
				if _, dup := w.Specs[name]; dup {
					return fail("duplicate spec %s", name)
				}
				w.Specs[name] = curSpec
				w.SpecList = append(w.SpecList, curSpec)
			case "axiom", "lemma":
				name, body, ok := strings.Cut(rest, ":")
				if !ok {
					return fail("axiom needs 'name: expr'")
				}
				ax := &Axiom{Name: strings.TrimSpace(name), Text: strings.TrimSpace(body), Lemma: word == "lemma", File: l.file, Line: l.line}
				if op := strings.Index(ax.Name, "("); op >= 0 {
					ps, err := parseParams(strings.TrimSuffix(ax.Name[op+1:], ")"))
					if err != nil {
						return fail("%v", err)
					}
					ax.Params = ps
					ax.Name = ax.Name[:op]
				}
				if ax.Text != "" {
					e, err := parseContractExpr(ax.Text)
					if err != nil {
						return fail("%v", err)
					}
					ax.Expr = e
				}
				curAx = ax
				w.Axioms = append(w.Axioms, ax)
			default:
				return fail("unknown block %q", word)
			}
			continue
		}
		word, rest, _ := strings.Cut(tr, " ")
		rest = strings.TrimSpace(rest)
		fail2 := func(format string, args ...any) error {
			return fmt.Errorf("%s:%d: %s", l.file, l.line, fmt.Sprintf(format, args...))
		}
		if curSpec != nil {
			switch word {
			case "smt":
				curSpec.SMT = rest
			case "smtbv":
				curSpec.SMTBV = rest
			case "rec":
				curSpec.Rec = true
			case "go":
				curSpec.GoTwin = rest
			default:
				return fail2("unknown spec clause %q", word)
			}
			continue
		}
		if curAx != nil {
			switch word {
			case "smt":
				curAx.SMT = rest
			case "uses":
				for _, u := range strings.Split(rest, ",") {
					curAx.Uses = append(curAx.Uses, strings.TrimSpace(u))
				}
			case "induction":
				curAx.Induct = rest
			case "property":
				for _, p := range strings.Split(rest, ",") {
					curAx.Props = append(curAx.Props, strings.TrimSpace(p))
				}
			default:
				return fail2("unknown axiom clause %q", word)
			}
			continue
		}
		if cur == nil {
			return fail2("clause outside a block")
		}
		mk := func(kind, text string) (*Clause, error) {
			cl := &Clause{Kind: kind, Text: text, File: l.file, Line: l.line}
			// optional label  [name]
			if strings.HasPrefix(text, "[") {
				if j := strings.Index(text, "]"); j > 0 {
					cl.Name = text[1:j]
					text = strings.TrimSpace(text[j+1:])
					cl.Text = text
				}
			}
			e, err := parseContractExpr(text)
			if err != nil {
				return nil, err
			}
			cl.Expr = e
			return cl, nil
		}
		switch word {
		case "property":
			for _, p := range strings.Split(rest, ",") {
				cur.Props = append(cur.Props, strings.TrimSpace(p))
			}
		case "arith":
			cur.Arith = rest
		case "pure":
			cur.Pure = true
			cur.HasMod = true
		case "fresh":
			cur.Fresh = true
		case "inline":
			cur.Inline = true
		case "opaque-call":
			cur.Opaque = append(cur.Opaque, rest)
		case "returns":
			if rest != "split" {
				return fail2("expected: returns split")
			}
			cur.SplitReturns = true
		case "havoc":
			cur.Havoc = rest
		case "requires", "ensures", "domain", "assumed-ensures":
			kind := word
			if word == "assumed-ensures" {
				kind = "ensures"
			}
			cl, err := mk(kind, rest)
			if err != nil {
				return fail2("%v", err)
			}
			if word == "assumed-ensures" {
				cl.Assumed = true
				cur.Ensures = append(cur.Ensures, cl)
			}
			switch word {
			case "requires":
				cur.Requires = append(cur.Requires, cl)
			case "ensures":
				cur.Ensures = append(cur.Ensures, cl)
			case "domain":
				cur.Domain = append(cur.Domain, cl)
			}
		case "loop":
			// loop N invariant expr
			f := strings.Fields(rest)
			if len(f) < 3 || f[1] != "invariant" {
				return fail2("expected: loop N invariant expr")
			}
			n, err := strconv.Atoi(f[0])
			if err != nil {
				return fail2("bad loop ordinal")
			}
			body := strings.TrimSpace(strings.SplitN(rest, "invariant", 2)[1])
			cl, err := mk("invariant", body)
			if err != nil {
				return fail2("%v", err)
			}
			cl.Loop = n
			cur.LoopInv[n] = append(cur.LoopInv[n], cl)
		case "modifies":
			cur.HasMod = true
			for _, m := range strings.Split(rest, ",") {
				if m = strings.TrimSpace(m); m != "" && m != "nothing" {
					cur.Modifies = append(cur.Modifies, m)
				}
			}
		case "trust":
			for _, m := range strings.Split(rest, ",") {
				cur.Trust[strings.TrimSpace(m)] = true
			}
		case "safety":
			for _, m := range strings.Split(rest, ",") {
				m = strings.TrimSpace(m)
				if strings.HasPrefix(m, "-") {
					cur.NoSafety[m[1:]] = true
				} else {
					cur.Safety[m] = true
				}
			}
		case "wraps":
			for _, m := range strings.Fields(rest) {
				n, err := strconv.Atoi(m)
				if err != nil {
					return fail2("bad wraps ordinal")
				}
				cur.Wraps[n] = true
			}
		case "def":
			name, params, result, body, err := parseSig(rest)
			if err != nil {
				return fail2("%v", err)
			}
			d := &LocalDef{Name: name, Params: params, Result: result, Text: body}
			if strings.HasPrefix(body, "rec ") {
				// natural recursion on the last parameter k:  f(..., k) = BASE for k <= 0;  f(..., k+1) = STEP for k >= 0
				d.Rec = true
				parts := splitTop(strings.TrimSpace(body[4:]), ";")
				if len(parts) != 2 {
					return fail2("recursive def needs 'rec BASE ; STEP'")
				}
				be, err := parseContractExpr(strings.TrimSpace(parts[0]))
				if err != nil {
					return fail2("%v", err)
				}
				d.Base = be
				body = strings.TrimSpace(parts[1])
				d.Text = body
			}
			e, err := parseContractExpr(body)
			if err != nil {
				return fail2("%v", err)
			}
			d.Expr = e
			cur.Defs = append(cur.Defs, d)
		case "assert-call":
			callee, body, ok := strings.Cut(rest, ":")
			if !ok {
				return fail2("assert-call needs 'callee: expr'")
			}
			cl, err := mk("assert-call", strings.TrimSpace(body))
			if err != nil {
				return fail2("%v", err)
			}
			cl.Name = strings.TrimSpace(callee)
			cur.Asserts = append(cur.Asserts, cl)
		case "lemma":
			// lemma name(params) induction x from e: P
			head, body, ok := strings.Cut(rest, ":")
			if !ok {
				return fail2("lemma needs 'name(params) induction x from e: P'")
			}
			op := strings.Index(head, "(")
			cp := strings.Index(head, ")")
			if op < 0 || cp < op {
				return fail2("lemma needs parameters")
			}
			ll := &LocalLemma{Name: strings.TrimSpace(head[:op]), Text: strings.TrimSpace(body)}
			ps, err := parseParams(head[op+1 : cp])
			if err != nil {
				return fail2("%v", err)
			}
			ll.Params = ps
			tail := strings.Fields(head[cp+1:])
			if len(tail) >= 4 && tail[0] == "induction" && tail[2] == "from" {
				ll.Var = tail[1]
				fe, err := parseContractExpr(strings.Join(tail[3:], " "))
				if err != nil {
					return fail2("%v", err)
				}
				ll.From = fe
			} else if len(tail) != 0 {
				return fail2("expected: induction x from e")
			}
			e, err := parseContractExpr(ll.Text)
			if err != nil {
				return fail2("%v", err)
			}
			ll.Expr = e
			cur.LocalLemmas = append(cur.LocalLemmas, ll)
		default:
			return fail2("unknown clause %q", word)
		}
	}
	return nil
}

// parseFuncKey parses "(r *Reorderer) Push", "Reorderer.Push", "name", "name$1".
func parseFuncKey(s string) (string, error) {
	s = strings.TrimSpace(s)
	if strings.HasPrefix(s, "(") {
		cl := strings.Index(s, ")")
		if cl < 0 {
			return "", fmt.Errorf("bad receiver in %q", s)
		}
		recv := strings.Fields(s[1:cl])
		t := recv[len(recv)-1]
		t = strings.TrimPrefix(t, "*")
		name := strings.TrimSpace(s[cl+1:])
		if i := strings.Index(name, "("); i >= 0 {
			name = name[:i]
		}
		return t + "." + name, nil
	}
	if i := strings.Index(s, "("); i >= 0 {
		s = s[:i]
	}
	return strings.TrimSpace(s), nil
}

// loadContracts reads every contracts file under the repo plus stubs and specs.
func (w *World) loadContracts() error {
	for _, f := range findContractFiles(w.RepoDir) {
		ls, _, err := readContractLines(f)
		if err != nil {
			return err
		}
		rel, _ := filepath.Rel(w.RepoDir, filepath.Dir(f))
		if err := w.parseBlocks(ls, modulePath+"/"+filepath.ToSlash(rel)); err != nil {
			return err
		}
	}
	for _, dir := range []string{"specs", "stubs"} {
		files, _ := filepath.Glob(filepath.Join(w.VerifDir, dir, "*"))
		sort.Strings(files)
		for _, f := range files {
			ls, err := readPlainLines(f)
			if err != nil {
				return err
			}
			if err := w.parseBlocks(ls, ""); err != nil {
				return err
			}
		}
	}
	return nil
}

// contractPackages returns the package paths having contracts for the given property ("" = all).
func contractPackages(repo, prop string) ([]string, error) {
	tmp := &World{RepoDir: repo, Contracts: map[string]*Contract{}, Stubs: map[string]*Contract{}, Specs: map[string]*SpecFunc{}}
	for _, f := range findContractFiles(repo) {
		ls, _, err := readContractLines(f)
		if err != nil {
			return nil, err
		}
		rel, _ := filepath.Rel(repo, filepath.Dir(f))
		if err := tmp.parseBlocks(ls, modulePath+"/"+filepath.ToSlash(rel)); err != nil {
			return nil, err
		}
	}
	set := map[string]bool{}
	for _, c := range tmp.Contracts {
		if prop == "" || contains(c.Props, prop) {
			set[c.PkgPath] = true
		}
	}
	var out []string
	for p := range set {
		out = append(out, p)
	}
	sort.Strings(out)
	return out, nil
}

func contains(xs []string, x string) bool {
	for _, y := range xs {
		if y == x {
			return true
		}
	}
	return false
}

// FieldInv is a range invariant of a struct field of the module, proved at every store.
type FieldInv struct {
	PkgPath string
	Type    string
	Field   string
	Lo, Hi  string
	Props   []string
	File    string
	Line    int
}
