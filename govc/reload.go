package main

// C13: hot reload. The configuration dependencies of every component are extracted mechanically
// from (*Core).createResources on every run, and turned into postconditions of (*Core).closeResources:
//
//   complete.<X>.<F>   a change of conf field F (used to build component X) closes X, or X is not running,
//                      or the field is applied in place by a Reload* call
//   propagate.<X>.<Y>  closing component Y (which X holds a reference to) closes X
//   precise.<X>        if no field of X changed and no dependency is closed, X keeps running
//   effect.<X>         a closed component is reset to nil (so createResources rebuilds it), others are untouched
//
// The extraction only reads the syntax of the two functions; the obligations are discharged against the
// SSA of closeResources like any other postcondition.

import (
	"fmt"
	"go/ast"
	"go/token"
	"go/types"
	"sort"
	"strings"

	"golang.org/x/tools/go/ssa"
)

// deqTerm is the abstract deep equality used for reflect.DeepEqual / slices.Equal (per sort, reflexive).
func (ex *Exec) deqTerm(a, b Term) Term {
	c := ex.c
	if a.Sort != b.Sort {
		panic(unsupported("deq on different sorts %s / %s", a.Sort, b.Sort))
	}
	name := "deq." + sanitizeSym(string(a.Sort))
	c.decl("fn:"+name, fmt.Sprintf("(declare-fun %s (%s %s) Bool)", name, a.Sort, a.Sort))
	c.decl("ax:"+name, fmt.Sprintf("(assert (forall ((a %s)) (! (%s a a) :pattern ((%s a a)))))", a.Sort, name, name))
	c.trust("reflect.DeepEqual / slices.Equal are an abstract reflexive relation on the compared values")
	if a.S == b.S {
		return tTrue
	}
	return T(SBool, "(%s %s %s)", name, a.S, b.S)
}

// deepEqualCall models reflect.DeepEqual(x, y) and slices.Equal(x, y) on the underlying values.
func (ex *Exec) deepEqualCall(callee *ssa.Function, cc *ssa.CallCommon) (*Val, bool) {
	name := calleeOriginName(callee)
	if name != "reflect.DeepEqual" && name != "slices.Equal" {
		return nil, false
	}
	if len(cc.Args) != 2 {
		return nil, false
	}
	under := func(v ssa.Value) ssa.Value {
		if mi, ok := v.(*ssa.MakeInterface); ok {
			return mi.X
		}
		return v
	}
	x, y := under(cc.Args[0]), under(cc.Args[1])
	xv, yv := ex.val(x), ex.val(y)
	if xv.T.S == "" || yv.T.S == "" || xv.T.Sort != yv.T.Sort {
		return nil, false
	}
	return &Val{T: ex.deqTerm(xv.T, yv.T), Ty: types.Typ[types.Bool]}, true
}

type reloadComponent struct {
	field   string   // p.<field>
	flag    string   // close<X> local of closeResources
	fields  []string // conf fields read when creating it
	deps    []string // other components referenced when creating it
	reloads map[string]string // conf field -> Reload method applied in place
	usesLogger bool
}

func findFuncDecl(files []*ast.File, recv, name string) *ast.FuncDecl {
	for _, f := range files {
		for _, d := range f.Decls {
			fd, ok := d.(*ast.FuncDecl)
			if !ok || fd.Name.Name != name || fd.Recv == nil || len(fd.Recv.List) != 1 {
				continue
			}
			t := fd.Recv.List[0].Type
			if st, ok := t.(*ast.StarExpr); ok {
				t = st.X
			}
			if id, ok := t.(*ast.Ident); ok && id.Name == recv {
				return fd
			}
		}
	}
	return nil
}

func selOn(e ast.Expr, base string) (string, bool) {
	se, ok := e.(*ast.SelectorExpr)
	if !ok {
		return "", false
	}
	id, ok := se.X.(*ast.Ident)
	if !ok || id.Name != base {
		return "", false
	}
	return se.Sel.Name, true
}

// extractReloadMap reads closeResources and createResources.
func (w *World) extractReloadMap(corePath string) ([]*reloadComponent, error) {
	pkg := w.Pkgs[corePath]
	if pkg == nil {
		return nil, fmt.Errorf("package %s not loaded", corePath)
	}
	closeFn := findFuncDecl(pkg.Syntax, "Core", "closeResources")
	createFn := findFuncDecl(pkg.Syntax, "Core", "createResources")
	if closeFn == nil || createFn == nil {
		return nil, fmt.Errorf("closeResources / createResources not found")
	}
	recvName := closeFn.Recv.List[0].Names[0].Name
	comps := map[string]*reloadComponent{}
	// 1. p.<Y> = nil under a condition mentioning close<X>
	var walk func(n ast.Node, flags []string)
	walk = func(n ast.Node, flags []string) {
		switch s := n.(type) {
		case *ast.BlockStmt:
			for _, st := range s.List {
				walk(st, flags)
			}
		case *ast.IfStmt:
			fl := append([]string{}, flags...)
			ast.Inspect(s.Cond, func(x ast.Node) bool {
				if id, ok := x.(*ast.Ident); ok && strings.HasPrefix(id.Name, "close") && len(id.Name) > 5 {
					fl = append(fl, id.Name)
				}
				return true
			})
			walk(s.Body, fl)
			if s.Else != nil {
				walk(s.Else, flags)
			}
		case *ast.AssignStmt:
			if len(s.Lhs) == 1 && len(s.Rhs) == 1 {
				if f, ok := selOn(s.Lhs[0], recvName); ok {
					if id, ok := s.Rhs[0].(*ast.Ident); ok && id.Name == "nil" && len(flags) > 0 {
						comps[f] = &reloadComponent{field: f, flag: flags[len(flags)-1], reloads: map[string]string{}}
					}
				}
			}
		}
	}
	walk(closeFn.Body, nil)
	// 2. in-place reloads: p.<Y>.Reload*(newConf.<F>)
	ast.Inspect(closeFn.Body, func(n ast.Node) bool {
		call, ok := n.(*ast.CallExpr)
		if !ok || len(call.Args) != 1 {
			return true
		}
		se, ok := call.Fun.(*ast.SelectorExpr)
		if !ok || !strings.HasPrefix(se.Sel.Name, "Reload") {
			return true
		}
		comp, ok := selOn(se.X, recvName)
		if !ok {
			return true
		}
		f, ok := selOn(call.Args[0], "newConf")
		if !ok {
			return true
		}
		if c := comps[comp]; c != nil {
			c.reloads[f] = se.Sel.Name
		}
		return true
	})
	// 3. creation blocks
	crecv := createFn.Recv.List[0].Names[0].Name
	for _, st := range createFn.Body.List {
		ifs, ok := st.(*ast.IfStmt)
		if !ok {
			continue
		}
		var target string
		ast.Inspect(ifs.Cond, func(n ast.Node) bool {
			be, ok := n.(*ast.BinaryExpr)
			if !ok || be.Op != token.EQL {
				return true
			}
			if f, ok := selOn(be.X, crecv); ok {
				if id, ok := be.Y.(*ast.Ident); ok && id.Name == "nil" {
					target = f
				}
			}
			return true
		})
		c := comps[target]
		if c == nil {
			continue
		}
		fs := map[string]bool{}
		ds := map[string]bool{}
		ast.Inspect(ifs, func(n ast.Node) bool {
			if f, ok := selOn(asExpr(n), "currentConf"); ok {
				fs[f] = true
			}
			if f, ok := selOn(asExpr(n), crecv); ok && f != target && comps[f] != nil {
				ds[f] = true
			}
			if kv, ok := n.(*ast.KeyValueExpr); ok {
				if id, ok := kv.Value.(*ast.Ident); ok && id.Name == crecv {
					c.usesLogger = true
				}
			}
			return true
		})
		for f := range fs {
			c.fields = append(c.fields, f)
		}
		for d := range ds {
			c.deps = append(c.deps, d)
		}
		sort.Strings(c.fields)
		sort.Strings(c.deps)
	}
	var out []*reloadComponent
	for _, c := range comps {
		out = append(out, c)
	}
	sort.Slice(out, func(i, j int) bool { return out[i].field < out[j].field })
	return out, nil
}

func asExpr(n ast.Node) ast.Expr {
	if e, ok := n.(ast.Expr); ok {
		return e
	}
	return nil
}

// reloadMapClauses synthesises the postconditions of closeResources.
func (w *World) reloadMapClauses(o *options, res *checkResult) error {
	corePath := modulePath + "/internal/core"
	ct := w.Contracts[corePath+"::Core.closeResources"]
	if ct == nil {
		return fmt.Errorf("no contract block for Core.closeResources")
	}
	comps, err := w.extractReloadMap(corePath)
	if err != nil {
		return err
	}
	confT := w.Pkgs[modulePath+"/internal/conf"]
	if confT == nil {
		return fmt.Errorf("conf package not loaded")
	}
	confObj := confT.Types.Scope().Lookup("Conf")
	if confObj == nil {
		return fmt.Errorf("conf.Conf not found")
	}
	confStruct := confObj.Type().Underlying().(*types.Struct)
	fieldType := map[string]types.Type{}
	for i := 0; i < confStruct.NumFields(); i++ {
		fieldType[confStruct.Field(i).Name()] = confStruct.Field(i).Type()
	}
	differs := func(f string) string {
		t := fieldType[f]
		if t != nil && types.Comparable(t) {
			if _, isPtr := t.Underlying().(*types.Pointer); !isPtr {
				if _, isIface := t.Underlying().(*types.Interface); !isIface {
					return fmt.Sprintf("heapold(newConf.%s != currentConf.%s)", f, f)
				}
			}
		}
		return fmt.Sprintf("!deq(heapold(newConf.%s), heapold(currentConf.%s))", f, f)
	}
	add := func(label, text string) error {
		e, err := parseContractExpr(text)
		if err != nil {
			return fmt.Errorf("%s: %v", label, err)
		}
		ct.Ensures = append(ct.Ensures, &Clause{Kind: "ensures", Text: text, Expr: e, Name: label, File: ct.File, Line: ct.Line})
		return nil
	}
	byField := map[string]*reloadComponent{}
	for _, c := range comps {
		byField[c.field] = c
	}
	var summary []map[string]any
	nCreated := 0
	for _, c := range comps {
		if len(c.fields) > 0 {
			nCreated++
		}
		summary = append(summary, map[string]any{"component": c.field, "flag": c.flag, "conf_fields": c.fields, "depends_on": c.deps, "reloaded_in_place": c.reloads, "logs_through_core": c.usesLogger})
		for _, f := range c.fields {
			if fieldType[f] == nil {
				return fmt.Errorf("createResources reads currentConf.%s which is not a field of conf.Conf", f)
			}
			alt := ""
			if m, ok := c.reloads[f]; ok {
				alt = fmt.Sprintf(" || called(%s) >= 1", m)
			}
			if err := add(fmt.Sprintf("complete.%s.%s", c.field, f),
				fmt.Sprintf("newConf != nil && %s ==> %s || heapold(p.%s == nil)%s", differs(f), c.flag, c.field, alt)); err != nil {
				return err
			}
		}
		if err := add("shutdown."+c.field, fmt.Sprintf("newConf == nil ==> %s", c.flag)); err != nil {
			return err
		}
		for _, d := range c.deps {
			if err := add(fmt.Sprintf("propagate.%s.%s", c.field, d), fmt.Sprintf("%s ==> %s", byField[d].flag, c.flag)); err != nil {
				return err
			}
		}
		if c.usesLogger && byField["logger"] != nil && c.field != "logger" {
			if err := add(fmt.Sprintf("propagate.%s.logger", c.field), fmt.Sprintf("%s ==> %s", byField["logger"].flag, c.flag)); err != nil {
				return err
			}
		}
		// precision
		if len(c.fields) > 0 {
			var same []string
			for _, f := range c.fields {
				same = append(same, "!("+differs(f)+")")
			}
			for _, d := range c.deps {
				same = append(same, "!"+byField[d].flag)
			}
			if byField["logger"] != nil && c.field != "logger" {
				same = append(same, "!"+byField["logger"].flag)
			}
			if err := add("precise."+c.field, fmt.Sprintf("newConf != nil && %s ==> !%s", strings.Join(same, " && "), c.flag)); err != nil {
				return err
			}
		}
		// (effect: "a closed component is reset to nil" is not generated: it needs frame knowledge about the
		// Close methods of the components, which run callbacks and goroutines; listed as not covered)
	}
	if nCreated < 10 {
		return fmt.Errorf("only %d components extracted from createResources (extraction no longer matches the code shape)", nCreated)
	}
	res.extra["reload_map"] = summary
	return nil
}
