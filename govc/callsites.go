package main

// Context-free call-site obligations: the preconditions of contract-bearing helpers are
// discharged at every call site inside functions that are not themselves under contract,
// using only the provenance of the argument values in the caller's SSA (constants,
// conversions, single-assignment locals, captured variables, typed fields, library
// accessors with assumed ranges). Path conditions are deliberately not used, so the
// obligations are insensitive to refactoring of the enclosing (often very large) function.

import (
	"fmt"
	"go/token"
	"go/types"
	"sort"
	"strings"

	"golang.org/x/tools/go/ssa"
)

type provCtx struct {
	ex    *Exec
	depth int
	seen  map[ssa.Value]Val
	desc  map[ssa.Value]string
}

func (w *World) runCallSites(o *options, res *checkResult) {
	prop := o.prop
	var funcsInfo []map[string]any
	nSites := 0
	var pkgs []string
	for p := range w.SSAPkgs {
		if strings.HasPrefix(p, modulePath) {
			pkgs = append(pkgs, p)
		}
	}
	sort.Strings(pkgs)
	for _, pp := range pkgs {
		// every loaded module package is scanned for calls of contract-bearing functions of this property
		sp := w.ssaPkg(pp)
		for _, f := range allFunctions(sp) {
			if ct, _ := w.contractFor(f); ct != nil && contains(ct.Props, prop) {
				continue // verified in full, its call sites included
			}
			var calls []*ssa.Call
			for _, b := range f.Blocks {
				for _, in := range b.Instrs {
					call, ok := in.(*ssa.Call)
					if !ok {
						continue
					}
					callee := call.Call.StaticCallee()
					if callee == nil {
						continue
					}
					ct, _ := w.contractFor(callee)
					if ct == nil || !contains(ct.Props, prop) || len(ct.Requires) == 0 || ct.Extern {
						continue
					}
					calls = append(calls, call)
				}
			}
			if len(calls) == 0 {
				continue
			}
			name := shortPkg(pp) + "." + funcKey(f)
			if o.only != "" && !strings.Contains(name, o.only) {
				continue
			}
			c := newCtx(w, name, ArithInt)
			c.Props = []string{prop}
			rep := &FuncReport{Name: name, Key: funcKey(f), Pkg: pp, Pos: relPos(w.Fset.Position(f.Pos())), Ctx: c}
			func() {
				defer func() {
					if r := recover(); r != nil {
						if u, ok := r.(unsupportedErr); ok {
							rep.Err = u.msg
							return
						}
						panic(r)
					}
				}()
				ex := &Exec{w: w, c: c, fn: f, vals: map[ssa.Value]Val{}, exit: map[*ssa.BasicBlock]*State{}, reach: map[*ssa.BasicBlock]Term{}, params: map[string]Val{}}
				c.decl("const:alloc0", "(declare-const alloc0 Int)")
				c.decl("ax:alloc0", "(assert (>= alloc0 1))")
				c.decl("const:time.zero.ns", "(declare-const time.zero.ns Int)")
				ex.st = &State{cells: map[*ssa.Alloc]Term{}, heaps: map[string]Term{}, alloc: Term{"alloc0", SInt}}
				ex.entry = ex.st.clone()
				ex.rch = tTrue
				for _, call := range calls {
					callee := call.Call.StaticCallee()
					ct, key := w.contractFor(callee)
					pc := &provCtx{ex: ex, seen: map[ssa.Value]Val{}, desc: map[ssa.Value]string{}}
					args := make([]Val, len(call.Call.Args))
					var descs []string
					for i, a := range call.Call.Args {
						args[i] = pc.prov(a, 0)
						descs = append(descs, pc.describe(a))
					}
					names := paramNames(callee)
					env := &Env{ex: ex, st: ex.st, old: ex.st, vars: map[string]Val{}, pkg: callee.Pkg.Pkg, ct: ct, defs: map[string]string{}, defSt: ex.st, where: key}
					for i, n := range names {
						if i < len(args) {
							env.vars[n] = args[i]
							env.vars["old:"+n] = args[i]
						}
					}
					site := ex.callSiteID(key)
					for i, r := range ct.Requires {
						g := ex.evalBool(env, r)
						ob := c.obligeNamed(fmt.Sprintf("pre.%s.%d@%s", shortKey(key), i+1, site), "pre", w.Fset.Position(call.Pos()),
							fmt.Sprintf("call-site precondition of %s: %s  [args: %s]", key, r.Text, strings.Join(descs, "; ")), tTrue, g)
						var mv []ModelVar
						for j, a := range args {
							if a.T.S != "" && j < len(names) {
								mv = append(mv, ModelVar{Label: names[j], Term: a.T})
							}
						}
						ob.ModelVars = mv
					}
					nSites++
				}
			}()
			res.reports = append(res.reports, rep)
			if rep.Err != "" {
				res.errors = append(res.errors, fmt.Sprintf("%s (call sites): outside the supported subset: %s", rep.Name, rep.Err))
				continue
			}
			res.obls = append(res.obls, c.obls...)
			funcsInfo = append(funcsInfo, map[string]any{"caller": name, "call_sites": len(calls)})
		}
	}
	res.extra["call_site_callers"] = len(funcsInfo)
	res.extra["call_sites_checked"] = nSites
}

// prov computes a provenance value of an SSA value without path conditions.
func (pc *provCtx) prov(v ssa.Value, depth int) Val {
	if x, ok := pc.seen[v]; ok {
		return x
	}
	x := pc.prov1(v, depth)
	pc.seen[v] = x
	return x
}

func (pc *provCtx) unknown(v ssa.Value, why string) Val {
	ex := pc.ex
	t := v.Type()
	if _, isTuple := t.(*types.Tuple); isTuple {
		return ex.freshVal("cs", t)
	}
	x := ex.freshVal("cs."+v.Name(), t)
	pc.desc[v] = fmt.Sprintf("any %s (%s)", t, why)
	return x
}

func (pc *provCtx) describe(v ssa.Value) string {
	if d, ok := pc.desc[v]; ok {
		return d
	}
	return v.Name()
}

func (pc *provCtx) prov1(v ssa.Value, depth int) Val {
	ex := pc.ex
	c := ex.c
	if depth > 12 {
		return pc.unknown(v, "provenance too deep")
	}
	switch v := v.(type) {
	case *ssa.Const:
		pc.desc[v] = "const " + v.Name()
		return ex.constVal(v)
	case *ssa.Convert:
		x := pc.prov(v.X, depth+1)
		if isInteger(v.X.Type()) && isInteger(v.Type()) {
			pc.desc[v] = fmt.Sprintf("%s(%s)", v.Type(), pc.describe(v.X))
			return c.convertInt(x, v.Type(), false)
		}
		return pc.unknown(v, "conversion")
	case *ssa.ChangeType:
		x := pc.prov(v.X, depth+1)
		if x.T.S != "" && c.sortOf(v.Type()) == x.T.Sort {
			pc.desc[v] = pc.describe(v.X)
			return Val{T: x.T, Ty: v.Type()}
		}
		return pc.unknown(v, "type change")
	case *ssa.BinOp:
		if isInteger(v.X.Type()) && isInteger(v.Type()) {
			x, y := pc.prov(v.X, depth+1), pc.prov(v.Y, depth+1)
			// machine semantics without obligations: wrap
			pc.desc[v] = fmt.Sprintf("(%s %s %s)", pc.describe(v.X), v.Op, pc.describe(v.Y))
			o := &arithOpts{wraps: true}
			return c.intBinop(v.Op, x, y, v.Type(), o, nil)
		}
		return pc.unknown(v, "operation")
	case *ssa.UnOp:
		if v.Op == token.MUL {
			return pc.provLoad(v, depth)
		}
		return pc.unknown(v, "operation")
	case *ssa.Call:
		return pc.provCall(v, depth)
	case *ssa.Extract:
		t := pc.prov(v.Tuple, depth+1)
		if v.Index < len(t.Tuple) {
			pc.desc[v] = pc.describe(v.Tuple)
			return t.Tuple[v.Index]
		}
		return pc.unknown(v, "tuple")
	case *ssa.Parameter:
		return pc.unknown(v, "parameter "+v.Name())
	case *ssa.Phi:
		return pc.unknown(v, "merge of several values")
	}
	return pc.unknown(v, fmt.Sprintf("%T", v))
}

// singleStore returns the only stored value of a local variable, if there is exactly one store.
func singleStore(a *ssa.Alloc, fns []*ssa.Function) (ssa.Value, bool) {
	var val ssa.Value
	n := 0
	var visit func(addr ssa.Value) bool
	visit = func(addr ssa.Value) bool {
		refs := addr.Referrers()
		if refs == nil {
			return false
		}
		for _, r := range *refs {
			switch r := r.(type) {
			case *ssa.Store:
				if r.Addr == addr {
					val = r.Val
					n++
				} else {
					return false // address escapes by being stored
				}
			case *ssa.UnOp, *ssa.DebugRef:
			case *ssa.MakeClosure:
				// captured: look at the closure's uses of the corresponding free variable
				fn := r.Fn.(*ssa.Function)
				for i, b := range r.Bindings {
					if b == addr && i < len(fn.FreeVars) {
						if !visit(fn.FreeVars[i]) {
							return false
						}
					}
				}
			default:
				return false
			}
		}
		return true
	}
	if !visit(a) {
		return nil, false
	}
	if n == 1 {
		return val, true
	}
	return nil, false
}

func (pc *provCtx) provLoad(v *ssa.UnOp, depth int) Val {
	ex := pc.ex
	switch a := v.X.(type) {
	case *ssa.Alloc:
		if sv, ok := singleStore(a, nil); ok {
			x := pc.prov(sv, depth+1)
			pc.desc[v] = fmt.Sprintf("%s := %s", a.Comment, pc.describe(sv))
			return x
		}
		return pc.unknown(v, "local "+a.Comment+" assigned more than once or escaping")
	case *ssa.FreeVar:
		// captured variable: follow the bindings up to the defining local
		if src := resolveCapture(a); src != nil {
			if sv, ok := singleStore(src, nil); ok {
				x := pc.prov(sv, depth+1)
				pc.desc[v] = fmt.Sprintf("captured %s := %s", a.Name(), pc.describe(sv))
				return x
			}
		}
		return pc.unknown(v, "captured variable "+a.Name())
	case *ssa.FieldAddr:
		st := a.X.Type().Underlying().(*types.Pointer).Elem()
		f := st.Underlying().(*types.Struct).Field(a.Field)
		x := pc.unknown(v, fmt.Sprintf("field %s.%s", typeShort(st), f.Name()))
		if fi := ex.w.fieldInvFor(st, a.Field); fi != nil {
			ex.c.assume(T(SBool, "(and (<= %s %s) (<= %s %s))", fi.Lo, x.T.S, x.T.S, fi.Hi))
			ex.c.usedFieldInv[fi] = true
			pc.desc[v] = fmt.Sprintf("field %s.%s in [%s, %s] (proved field invariant)", typeShort(st), f.Name(), fi.Lo, fi.Hi)
		}
		if fr, ok := ex.w.FieldRanges[typeKey(st)+"."+f.Name()]; ok && isInteger(f.Type()) {
			ex.c.assume(T(SBool, "(and (<= %s %s) (<= %s %s))", fr.Lo, x.T.S, x.T.S, fr.Hi))
			ex.c.trust(fmt.Sprintf("assumed range of external field %s.%s in [%s, %s] (%s)", typeShort(st), f.Name(), fr.Lo, fr.Hi, relFile(fr.File)))
			pc.desc[v] = fmt.Sprintf("field %s.%s in [%s, %s]", typeShort(st), f.Name(), fr.Lo, fr.Hi)
		}
		return x
	case *ssa.IndexAddr:
		return pc.unknown(v, "element")
	}
	return pc.unknown(v, "load")
}

func typeShort(t types.Type) string {
	return types.TypeString(t, func(p *types.Package) string { return p.Name() })
}

func (pc *provCtx) provCall(v *ssa.Call, depth int) Val {
	ex := pc.ex
	w := ex.w
	cc := &v.Call
	var ct *Contract
	var key string
	var names []string
	var sig *types.Signature
	var args []Val
	if cc.IsInvoke() {
		key = cc.Method.FullName()
		ct = w.Stubs[key]
		sig = cc.Method.Type().(*types.Signature)
		names = []string{"recv"}
		for i := 0; i < sig.Params().Len(); i++ {
			names = append(names, sig.Params().At(i).Name())
		}
		args = append(args, pc.unknown(cc.Value, "receiver"))
	} else if callee := cc.StaticCallee(); callee != nil {
		ct, key = w.contractFor(callee)
		sig = callee.Signature
		names = paramNames(callee)
	}
	if ct == nil || len(ct.Requires) > 0 {
		why := "result of a call"
		if key != "" {
			why = "result of " + key
		} else if cc.StaticCallee() != nil {
			why = "result of " + cc.StaticCallee().String()
		}
		return pc.unknown(v, why)
	}
	for _, a := range cc.Args {
		args = append(args, pc.prov(a, depth+1))
	}
	// assumed / proved range of the result: the contract's postconditions, context-free
	r := ex.applyContract(ct, key, sig, names, args, v.Pos(), cc.StaticCallee())
	pc.desc[v] = key + "()"
	if r == nil {
		return pc.unknown(v, "no result")
	}
	return *r
}

// resolveCapture finds the local variable a free variable is bound to (through nested closures).
func resolveCapture(fv *ssa.FreeVar) *ssa.Alloc {
	fn := fv.Parent()
	idx := -1
	for i, x := range fn.FreeVars {
		if x == fv {
			idx = i
		}
	}
	parent := fn.Parent()
	if parent == nil || idx < 0 {
		return nil
	}
	for _, b := range parent.Blocks {
		for _, in := range b.Instrs {
			if mc, ok := in.(*ssa.MakeClosure); ok && mc.Fn == fn && idx < len(mc.Bindings) {
				switch src := mc.Bindings[idx].(type) {
				case *ssa.Alloc:
					return src
				case *ssa.FreeVar:
					return resolveCapture(src)
				}
			}
		}
	}
	return nil
}
