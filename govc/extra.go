package main

import "fmt"

func runExtraEngine(name string, w *World, o *options, res *checkResult) error {
	switch name {
	case "callsites":
		w.runCallSites(o, res)
		return nil
	}
	return fmt.Errorf("unknown engine %q", name)
}

func tryReplay(o *options, res *checkResult, ob *Obligation, model map[string]string) map[string]any {
	return nil
}

func cmdReplay(args []string) int { return 2 }
