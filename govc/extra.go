package main

import "fmt"

func runExtraEngine(name string, w *World, o *options, res *checkResult) error {
	switch name {
	case "callsites":
		w.runCallSites(o, res)
		return nil
	case "reloadmap":
		return nil // runs before the contracts are verified (see runCheck)
	}
	return fmt.Errorf("unknown engine %q", name)
}

func cmdReplay(args []string) int { return 2 }
