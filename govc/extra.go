package main

import (
	"encoding/json"
	"fmt"
	"os"
	"os/exec"
	"path/filepath"
	"strings"
)

func runExtraEngine(name string, w *World, o *options, res *checkResult) error {
	switch name {
	case "callsites":
		w.runCallSites(o, res)
		return nil
	case "reloadmap":
		return nil // runs before the contracts are verified (see runCheck)
	}
	return fmt.Errorf("unknown engine %q", name)
}

// cmdReplay re-examines a replay file written by a failed check: it prints the failed obligation, re-runs the
// stored SMT query (the solver's answer and model are what the check saw) and, when the file carries a generated
// test with concrete inputs, re-runs that test against the real code in /repo through a go test overlay.
// Exit status: 1 = the violation reproduces (solver does not prove the obligation / the test confirms it), 0 = it does not.
func cmdReplay(args []string) int {
	if len(args) < 1 {
		fmt.Fprintln(os.Stderr, "usage: govc replay <replay-file.json>")
		return 2
	}
	data, err := os.ReadFile(args[0])
	if err != nil {
		fmt.Fprintln(os.Stderr, "govc replay:", err)
		return 2
	}
	var rec map[string]any
	if err := json.Unmarshal(data, &rec); err != nil {
		fmt.Fprintln(os.Stderr, "govc replay:", err)
		return 2
	}
	fmt.Printf("property    %v\nobligation  %v\nat          %v\nclaim       %v\nwhen found  solver=%v status=%v\n", rec["property"], rec["obligation"], rec["position"], rec["description"], rec["solver"], rec["solver_status"])
	reproduces := false
	if rec["kind"] == "bounded" {
		// a bounded / structural check on the real code: the stored output names the failing input or store site
		fmt.Printf("bound       %v\npackage     %v\noutput of the failing run:\n%v\n", rec["bound"], rec["package"], rec["output"])
		fmt.Println("result      re-run the property's check to re-evaluate on the current tree (./check " + fmt.Sprint(rec["property"]) + ")")
		return 1
	}
	if q, ok := rec["query_file"].(string); ok {
		cmd := exec.Command("z3-new", "-T:60", q)
		out, _ := cmd.CombinedOutput()
		first := strings.SplitN(strings.TrimSpace(string(out)), "\n", 2)[0]
		fmt.Printf("solver now  z3-new: %s (unsat = obligation proved; sat/unknown/timeout = not proved)\n", first)
		if first != "unsat" {
			reproduces = true
		}
	}
	if rp, ok := rec["replay"].(map[string]any); ok {
		if src, ok := rp["test_source"].(string); ok && src != "" {
			dir, _ := os.MkdirTemp("", "govc-replay-")
			defer os.RemoveAll(dir)
			testFile := filepath.Join(dir, "zz_govc_replay_test.go")
			_ = os.WriteFile(testFile, []byte(src), 0o644)
			pos, _ := rec["position"].(string)
			pkgDir := filepath.Join("/repo", filepath.Dir(strings.SplitN(pos, ":", 2)[0]))
			ov, _ := json.Marshal(map[string]any{"Replace": map[string]string{filepath.Join(pkgDir, "zz_govc_replay_test.go"): testFile}})
			ovFile := filepath.Join(dir, "overlay.json")
			_ = os.WriteFile(ovFile, ov, 0o644)
			rel, _ := filepath.Rel("/repo", pkgDir)
			cmd := exec.Command("go", "test", "-overlay", ovFile, "-vet=off", "-count=1", "-timeout", "60s", "-run", "^TestGovcReplay$", "-v", "./"+rel+"/")
			cmd.Dir = "/repo"
			cmd.Env = append(os.Environ(), "GOFLAGS=-mod=mod", "GOPROXY=off", "GOSUMDB=off", "GOTOOLCHAIN=local")
			out, _ := cmd.CombinedOutput()
			for _, l := range strings.Split(string(out), "\n") {
				if strings.Contains(l, "GOVC-REPLAY") {
					fmt.Println("real code   " + strings.TrimSpace(l))
				}
			}
			if strings.Contains(string(out), "GOVC-REPLAY: CONFIRMED") {
				reproduces = true
			}
		}
		if in, ok := rp["inputs"]; ok {
			fmt.Printf("inputs      %v\n", in)
		}
	} else if n, ok := rec["replay_note"]; ok {
		fmt.Printf("note        %v\n", n)
	}
	if reproduces {
		fmt.Println("result      the recorded violation reproduces (stored query not proved / generated test confirms it on the real code)")
		return 1
	}
	fmt.Println("result      the stored query is proved and no test confirms a violation")
	return 0
}
