package main

// Symbolic execution of one SSA function (naive form) into a passive script with obligations.

import (
	"go/ast"
	"fmt"
	"go/token"
	"go/types"
	"sort"
	"strings"

	"golang.org/x/tools/go/ssa"
)

type loopInfo struct {
	header  *ssa.BasicBlock
	ordinal int
	blocks  map[*ssa.BasicBlock]bool
	latches []*ssa.BasicBlock
}

type retInfo struct {
	guard   Term
	results []Val
	state   *State
	pos     token.Pos
}

type Exec struct {
	w  *World
	c  *Ctx
	fn *ssa.Function
	ct *Contract

	vals  map[ssa.Value]Val
	exit  map[*ssa.BasicBlock]*State
	reach map[*ssa.BasicBlock]Term
	st    *State
	blk   *ssa.BasicBlock
	rch   Term
	entry *State

	cells  map[*ssa.Alloc]bool
	loops  map[*ssa.BasicBlock]*loopInfo
	rets   []retInfo
	defers []*ssa.Defer

	params   map[string]Val
	depth    int
	parent   *Exec
	safety   map[string]bool
	arithN   int
	topLevel bool
	defVals  map[string]Term

	pendingHavoc []*Loc
	inlineGuard  Term
	defMap       map[string]string
	callN        map[string]int
	assertN      int
	assertSeen   map[string]int
	curCall      *ssa.CallCommon
	madeClosure  map[*ssa.Alloc]bool // locals already captured by an executed MakeClosure
	lastResult   map[string]Val
}

var defaultSafety = map[string]bool{"idx": true, "slice": true, "div0": true, "ovf": true, "make-neg": true, "assert-type": true}

func (ex *Exec) safetyEnabled(kind string) bool {
	if ex.parent != nil {
		return ex.parent.safetyEnabled(kind)
	}
	if ex.ct != nil {
		if ex.ct.NoSafety[kind] || ex.ct.NoSafety["all"] {
			return false
		}
		if ex.ct.Safety[kind] || ex.ct.Safety["all"] {
			return true
		}
	}
	return defaultSafety[kind]
}

func (ex *Exec) trusted(kind string) bool {
	if ex.parent != nil {
		return ex.parent.trusted(kind)
	}
	return ex.ct != nil && ex.ct.Trust[kind]
}

// obligeSafety emits a safety obligation (or an assumption when trusted / disabled).
func (ex *Exec) obligeSafety(kind string, pos token.Position, desc string, goal Term) {
	if goal.S == "true" {
		return
	}
	if ex.trusted(kind) {
		ex.c.trust(fmt.Sprintf("%s: %s obligations assumed (trust %s)", ex.c.FuncName, kind, kind))
		ex.c.assume(Implies(ex.rch, goal))
		return
	}
	if !ex.safetyEnabled(kind) {
		return
	}
	ex.c.oblige(kind, pos, desc, ex.rch, goal)
	// later obligations may rely on this one (it is reported separately if it fails)
	ex.c.assume(Implies(ex.rch, goal))
}

func (ex *Exec) pos(p token.Pos) token.Position {
	if !p.IsValid() && ex.fn != nil {
		p = ex.fn.Pos()
	}
	return ex.w.Fset.Position(p)
}

// ---------------------------------------------------------------------------
// CFG helpers

func isBackEdge(from, to *ssa.BasicBlock) bool { return to.Dominates(from) }

func rpo(fn *ssa.Function) []*ssa.BasicBlock {
	seen := map[*ssa.BasicBlock]bool{}
	var post []*ssa.BasicBlock
	var dfs func(b *ssa.BasicBlock)
	dfs = func(b *ssa.BasicBlock) {
		seen[b] = true
		// visit successors in reverse so that source order is kept in RPO
		for i := len(b.Succs) - 1; i >= 0; i-- {
			s := b.Succs[i]
			if !seen[s] && !isBackEdge(b, s) {
				dfs(s)
			}
		}
		post = append(post, b)
	}
	dfs(fn.Blocks[0])
	for i, j := 0, len(post)-1; i < j; i, j = i+1, j-1 {
		post[i], post[j] = post[j], post[i]
	}
	// ensure topological order w.r.t. forward edges (DFS RPO with back edges removed is topological)
	return post
}

func findLoops(fn *ssa.Function) map[*ssa.BasicBlock]*loopInfo {
	loops := map[*ssa.BasicBlock]*loopInfo{}
	for _, b := range fn.Blocks {
		for _, s := range b.Succs {
			if isBackEdge(b, s) {
				li := loops[s]
				if li == nil {
					li = &loopInfo{header: s, blocks: map[*ssa.BasicBlock]bool{s: true}}
					loops[s] = li
				}
				li.latches = append(li.latches, b)
				// natural loop: nodes reaching b without passing s
				stack := []*ssa.BasicBlock{b}
				for len(stack) > 0 {
					n := stack[len(stack)-1]
					stack = stack[:len(stack)-1]
					if li.blocks[n] {
						continue
					}
					li.blocks[n] = true
					stack = append(stack, n.Preds...)
				}
			}
		}
	}
	// ordinals by source position of the header's first positioned instruction / block index
	var hs []*ssa.BasicBlock
	for h := range loops {
		hs = append(hs, h)
	}
	sort.Slice(hs, func(i, j int) bool { return loopPos(hs[i]) < loopPos(hs[j]) })
	for i, h := range hs {
		loops[h].ordinal = i + 1
	}
	return loops
}

func loopPos(h *ssa.BasicBlock) token.Pos {
	// the position of the loop statement: smallest valid position among header and its body instructions is unreliable;
	// use the first valid instruction position in the header, falling back to block index.
	best := token.Pos(0)
	for _, in := range h.Instrs {
		if p := in.Pos(); p.IsValid() && (best == 0 || p < best) {
			best = p
		}
	}
	if best == 0 {
		for _, s := range h.Succs {
			for _, in := range s.Instrs {
				if p := in.Pos(); p.IsValid() && (best == 0 || p < best) {
					best = p
				}
			}
		}
	}
	if best == 0 {
		return token.Pos(1<<30 + h.Index)
	}
	return best
}

func edgeCond(ex *Exec, from, to *ssa.BasicBlock) Term {
	if len(from.Instrs) == 0 {
		return tTrue
	}
	if iff, ok := from.Instrs[len(from.Instrs)-1].(*ssa.If); ok {
		if from.Succs[0] == to && from.Succs[1] == to {
			return tTrue
		}
		cv := ex.val(iff.Cond).T
		if from.Succs[0] == to {
			return cv
		}
		return Not(cv)
	}
	return tTrue
}

// ---------------------------------------------------------------------------
// cells

// isCellAlloc reports whether an Alloc can be kept as a non-escaping local cell.
func isCellAlloc(a *ssa.Alloc) bool {
	if _, isArr := a.Type().(*types.Pointer).Elem().Underlying().(*types.Array); isArr {
		// arrays live in the element heap so that they can be sliced
		return false
	}
	var ok func(v ssa.Value) bool
	ok = func(v ssa.Value) bool {
		refs := v.Referrers()
		if refs == nil {
			return false
		}
		for _, r := range *refs {
			switch r := r.(type) {
			case *ssa.Store:
				if r.Val == v {
					return false
				}
			case *ssa.UnOp:
				if r.Op != token.MUL {
					return false
				}
			case *ssa.FieldAddr:
				if !ok(r) {
					return false
				}
			case *ssa.IndexAddr:
				if r.X != v || !ok(r) {
					return false
				}
			case *ssa.DebugRef:
			default:
				return false
			}
		}
		return true
	}
	return ok(a)
}

// ---------------------------------------------------------------------------
// values

func (ex *Exec) val(v ssa.Value) Val {
	if x, ok := ex.vals[v]; ok {
		return x
	}
	switch v := v.(type) {
	case *ssa.Const:
		return ex.constVal(v)
	case *ssa.Global:
		t := v.Type().(*types.Pointer).Elem()
		return Val{Ty: v.Type(), Loc: &Loc{Kind: LGlobal, Global: v, Ty: t}}
	case *ssa.Function:
		return Val{T: ex.funcRef(v), Ty: v.Type(), Fn: v}
	case *ssa.Builtin:
		return Val{Ty: v.Type()}
	}
	panic(unsupported("value %s (%T) used before definition in %s", v.Name(), v, ex.fn.Name()))
}

func (ex *Exec) funcRef(f *ssa.Function) Term {
	name := "fn." + sanitizeSym(f.String())
	ex.c.decl("const:"+name, fmt.Sprintf("(declare-const %s Int)", name))
	ex.c.decl("ax:"+name, fmt.Sprintf("(assert (> %s 0))", name))
	return Term{name, SRef}
}

func (ex *Exec) constVal(k *ssa.Const) Val {
	c := ex.c
	t := k.Type()
	if k.Value == nil {
		return Val{T: c.zero(t), Ty: t}
	}
	switch {
	case isInteger(t):
		b := bigOf(k.Value)
		if b == nil {
			panic(unsupported("integer constant %s", k.Value))
		}
		return Val{T: c.intLit(b, t), Ty: t}
	case isBool(t), isString(t), isFloat(t):
		return c.materialise(Val{Const: k.Value}, t)
	}
	panic(unsupported("constant of type %s", t))
}

// locOf gives the location denoted by an address-typed SSA value.
func (ex *Exec) locOf(v ssa.Value) *Loc {
	x := ex.val(v)
	if x.Loc != nil {
		return x.Loc
	}
	pt, ok := v.Type().Underlying().(*types.Pointer)
	if !ok {
		panic(unsupported("address of non-pointer %s", v.Type()))
	}
	return ex.locOfRef(x.T, pt.Elem())
}

func (ex *Exec) locOfRef(ref Term, elem types.Type) *Loc {
	if isTimeTime(elem) {
		return &Loc{Kind: LBox, Ref: ref, Ty: elem}
	}
	if _, op := opaqueNamed(elem); op {
		return &Loc{Kind: LBox, Ref: ref, Ty: elem}
	}
	switch u := elem.Underlying().(type) {
	case *types.Struct:
		return &Loc{Kind: LStruct, Ref: ref, StructT: elem, Ty: elem}
	case *types.Array:
		_ = u
		return &Loc{Kind: LElem, Ref: ref, ElemT: u.Elem(), Ty: elem, Idx: Term{}} // whole array when Idx empty
	}
	return &Loc{Kind: LBox, Ref: ref, Ty: elem}
}

func (ex *Exec) loadBase(st *State, l *Loc) Term {
	c := ex.c
	switch l.Kind {
	case LCell:
		t, ok := st.cells[l.Cell]
		if !ok {
			// allocation not executed on this path: unconstrained
			t = c.freshConst("cell."+l.Cell.Comment, c.sortOf(l.Cell.Type().(*types.Pointer).Elem()))
			st.cells[l.Cell] = t
		}
		return t
	case LField:
		k := c.keyField(l.StructT, l.Field)
		return Select(c.heapGet(st, k), l.Ref, c.heapSorts[k].elem)
	case LStruct:
		s := l.StructT.Underlying().(*types.Struct)
		fs := make([]Term, s.NumFields())
		for i := range fs {
			k := c.keyField(l.StructT, i)
			fs[i] = Select(c.heapGet(st, k), l.Ref, c.heapSorts[k].elem)
		}
		return c.structMake(l.StructT, fs)
	case LElem:
		k := c.keyElem(l.ElemT)
		info := c.heapSorts[k]
		if l.SliceT.S != "" {
			return c.elemAt(k, c.heapGet(st, k), l.SliceT, l.RelIdx)
		}
		arr := Select(c.heapGet(st, k), l.Ref, ArraySort(c.idxSort(), info.elem))
		if l.Idx.S == "" {
			return arr
		}
		return Select(arr, l.Idx, info.elem)
	case LBox:
		k := c.keyBox(l.Ty0())
		return Select(c.heapGet(st, k), l.Ref, c.heapSorts[k].elem)
	case LGlobal:
		k := c.keyGlobal(l.Global)
		return c.heapGet(st, k)
	}
	panic(unsupported("load base kind %d", l.Kind))
}

// Ty0 is the type of the base object of a location (before following Path).
func (l *Loc) Ty0() types.Type {
	if len(l.Path) > 0 {
		return l.Path[0].cont
	}
	return l.Ty
}

func (ex *Exec) storeBase(st *State, l *Loc, v Term) {
	c := ex.c
	switch l.Kind {
	case LCell:
		st.cells[l.Cell] = c.define("c."+l.Cell.Comment, v)
	case LField:
		k := c.keyField(l.StructT, l.Field)
		c.heapSet(st, k, Store(c.heapGet(st, k), l.Ref, v))
	case LStruct:
		s := l.StructT.Underlying().(*types.Struct)
		v = c.define("sv", v)
		for i := 0; i < s.NumFields(); i++ {
			k := c.keyField(l.StructT, i)
			c.heapSet(st, k, Store(c.heapGet(st, k), l.Ref, c.structField(v, l.StructT, i)))
		}
	case LElem:
		k := c.keyElem(l.ElemT)
		info := c.heapSorts[k]
		h := c.heapGet(st, k)
		if l.Idx.S == "" {
			c.heapSet(st, k, Store(h, l.Ref, v))
			return
		}
		arr := Select(h, l.Ref, ArraySort(c.idxSort(), info.elem))
		c.heapSet(st, k, Store(h, l.Ref, Store(arr, l.Idx, v)))
	case LBox:
		k := c.keyBox(l.Ty0())
		c.heapSet(st, k, Store(c.heapGet(st, k), l.Ref, v))
	case LGlobal:
		k := c.keyGlobal(l.Global)
		c.heapSet(st, k, v)
	default:
		panic(unsupported("store base kind %d", l.Kind))
	}
}

func (ex *Exec) pathGet(base Term, path []pathStep) Term {
	c := ex.c
	for _, s := range path {
		if s.idx != nil {
			arr := s.cont.Underlying().(*types.Array)
			base = Select(base, *s.idx, c.sortOf(arr.Elem()))
		} else {
			base = c.structField(base, s.cont, s.field)
		}
	}
	return base
}

func (ex *Exec) pathSet(base Term, path []pathStep, v Term) Term {
	c := ex.c
	if len(path) == 0 {
		return v
	}
	s := path[0]
	if s.idx != nil {
		arr := s.cont.Underlying().(*types.Array)
		inner := Select(base, *s.idx, c.sortOf(arr.Elem()))
		return Store(base, *s.idx, ex.pathSet(inner, path[1:], v))
	}
	base = c.define("pb", base)
	inner := c.structField(base, s.cont, s.field)
	return c.structUpdate(base, s.cont, s.field, ex.pathSet(inner, path[1:], v))
}

func (ex *Exec) loadLoc(st *State, l *Loc) Term {
	return ex.pathGet(ex.loadBase(st, l), l.Path)
}

func (ex *Exec) storeLoc(st *State, l *Loc, v Term) {
	if len(l.Path) == 0 {
		ex.storeBase(st, l, v)
		return
	}
	base := ex.loadBase(st, l)
	ex.storeBase(st, l, ex.pathSet(base, l.Path, v))
}

// allocRef returns a fresh reference.
func (ex *Exec) allocRef() Term {
	c := ex.c
	ref := c.define("ref", ex.st.alloc)
	ex.st.alloc = c.define("alloc", T(SInt, "(+ %s 1)", ref.S))
	return ref
}

// refFact: a reference-like value existing now was allocated before now.
func (ex *Exec) refFact(v Term, t types.Type) Term {
	if isTimeTime(t) {
		return tTrue
	}
	if _, op := opaqueNamed(t); op {
		return tTrue
	}
	switch t.Underlying().(type) {
	case *types.Pointer, *types.Map, *types.Chan, *types.Interface, *types.Signature:
		return T(SBool, "(and (>= %s 0) (< %s %s))", v.S, v.S, ex.st.alloc.S)
	case *types.Slice:
		return T(SBool, "(< (s.arr %s) %s)", v.S, ex.st.alloc.S)
	}
	return tTrue
}

// typeFacts are the first-order type invariants of a fresh/loaded value.
func (ex *Exec) typeFacts(v Term, t types.Type) Term {
	return And(ex.c.rangeFact(v, t), ex.refFact(v, t))
}

func (ex *Exec) freshVal(hint string, t types.Type) Val {
	c := ex.c
	if tup, ok := t.(*types.Tuple); ok {
		vs := make([]Val, tup.Len())
		for i := range vs {
			vs[i] = ex.freshVal(fmt.Sprintf("%s.%d", hint, i), tup.At(i).Type())
		}
		return Val{Tuple: vs, Ty: t}
	}
	x := c.freshConst(hint, c.sortOf(t))
	c.assume(Implies(ex.rch, ex.typeFacts(x, t)))
	return Val{T: x, Ty: t}
}

// ---------------------------------------------------------------------------
// running a function

func (ex *Exec) run() {
	fn := ex.fn
	c := ex.c
	ex.loops = findLoops(fn)
	ex.cells = map[*ssa.Alloc]bool{}
	for _, b := range fn.Blocks {
		for _, in := range b.Instrs {
			if a, ok := in.(*ssa.Alloc); ok && isCellAlloc(a) {
				ex.cells[a] = true
			}
		}
	}
	order := rpo(fn)
	for _, b := range order {
		ex.blk = b
		// incoming forward edges
		type inEdge struct {
			from *ssa.BasicBlock
			cond Term
		}
		var ins []inEdge
		for _, p := range b.Preds {
			if isBackEdge(p, b) {
				continue
			}
			if _, done := ex.exit[p]; !done {
				continue // unreachable predecessor
			}
			ins = append(ins, inEdge{p, And(ex.reach[p], edgeCond(ex, p, b))})
		}
		if b == fn.Blocks[0] {
			ex.rch = ex.entryGuard()
			ex.reach[b] = ex.rch
		} else {
			if len(ins) == 0 {
				continue // unreachable
			}
			conds := make([]Term, len(ins))
			for i := range ins {
				conds[i] = ins[i].cond
			}
			ex.rch = c.define(fmt.Sprintf("reach.%s.b%d", sanitizeSym(fn.Name()), b.Index), Or(conds...))
			ex.reach[b] = ex.rch
			// merge states
			states := make([]*State, len(ins))
			for i := range ins {
				states[i] = ex.exit[ins[i].from]
			}
			ex.st = ex.mergeStates(states, conds, fmt.Sprintf("b%d", b.Index))
		}
		li := ex.loops[b]
		// phis
		phiIn := map[*ssa.Phi]Term{}
		for _, in := range b.Instrs {
			phi, ok := in.(*ssa.Phi)
			if !ok {
				break
			}
			var vs []Term
			var cs []Term
			for i, p := range b.Preds {
				if isBackEdge(p, b) {
					continue
				}
				if _, done := ex.exit[p]; !done {
					continue
				}
				vs = append(vs, ex.val(phi.Edges[i]).T)
				cs = append(cs, And(ex.reach[p], edgeCond(ex, p, b)))
			}
			phiIn[phi] = c.define("phi."+phi.Name(), iteChain(cs, vs))
			if li == nil {
				ex.vals[phi] = Val{T: phiIn[phi], Ty: phi.Type()}
			}
		}
		if li != nil {
			ex.loopHead(li, phiIn)
		}
		for _, in := range b.Instrs {
			if _, ok := in.(*ssa.Phi); ok {
				continue
			}
			ex.instr(in)
		}
		ex.exit[b] = ex.st
		// back edges leaving this block: invariant preservation
		for _, s := range b.Succs {
			if isBackEdge(b, s) {
				ex.loopLatch(ex.loops[s], b)
			}
		}
		ex.st = ex.st.clone()
	}
}

func iteChain(conds, vals []Term) Term {
	if len(vals) == 0 {
		panic(unsupported("empty merge"))
	}
	r := vals[len(vals)-1]
	for i := len(vals) - 2; i >= 0; i-- {
		r = Ite(conds[i], vals[i], r)
	}
	return r
}

func (ex *Exec) entryGuard() Term {
	if ex.depth > 0 {
		return ex.inlineGuard
	}
	return tTrue
}

func (ex *Exec) mergeStates(states []*State, conds []Term, hint string) *State {
	c := ex.c
	if len(states) == 1 {
		return states[0].clone()
	}
	n := &State{cells: map[*ssa.Alloc]Term{}, heaps: map[string]Term{}}
	// base
	same := true
	for _, s := range states[1:] {
		if s.base != states[0].base || len(s.alts) > 0 || len(states[0].alts) > 0 {
			same = false
		}
	}
	if same {
		n.base = states[0].base
	} else {
		c.fresh++
		n.base = c.fresh
		// remember which epoch applies under which condition (for keys first used after this merge)
		for i, s := range states {
			if len(s.alts) > 0 {
				for _, a := range s.alts {
					n.alts = append(n.alts, baseAlt{cond: And(conds[i], a.cond), base: a.base})
				}
			} else {
				n.alts = append(n.alts, baseAlt{cond: conds[i], base: s.base})
			}
		}
		if len(n.alts) > 24 {
			// too many alternatives: fall back to an unconstrained epoch (sound over-approximation)
			n.alts = nil
		}
	}
	// cells
	cellSet := map[*ssa.Alloc]bool{}
	for _, s := range states {
		for a := range s.cells {
			cellSet[a] = true
		}
	}
	var cellList []*ssa.Alloc
	for a := range cellSet {
		cellList = append(cellList, a)
	}
	sort.Slice(cellList, func(i, j int) bool { return cellList[i].Pos() < cellList[j].Pos() || (cellList[i].Pos() == cellList[j].Pos() && cellList[i].Name() < cellList[j].Name()) })
	for _, a := range cellList {
		var vs, cs []Term
		for i, s := range states {
			if t, ok := s.cells[a]; ok {
				vs = append(vs, t)
				cs = append(cs, conds[i])
			}
		}
		n.cells[a] = c.define("m."+a.Comment, iteChain(cs, vs))
	}
	// heaps
	keySet := map[string]bool{}
	for _, s := range states {
		for k := range s.heaps {
			keySet[k] = true
		}
	}
	// keys that no predecessor has touched explicitly are resolved lazily through n.alts (see heapGet)
	// (if the alternatives were dropped because there were too many, untouched keys become unconstrained:
	// a sound over-approximation)
	for _, k := range sortedKeys(keySet) {
		vs := make([]Term, len(states))
		for i, s := range states {
			vs[i] = c.heapGet(s, k)
		}
		n.heaps[k] = c.define("mH."+k, iteChain(conds, vs))
	}
	as := make([]Term, len(states))
	for i, s := range states {
		as[i] = s.alloc
	}
	n.alloc = c.define("alloc", iteChain(conds, as))
	// ghost call counters
	gk := map[string]bool{}
	for _, s := range states {
		for k := range s.ghost {
			gk[k] = true
		}
	}
	if len(gk) > 0 {
		n.ghost = map[string]Term{}
		for _, k := range sortedKeys(gk) {
			vs := make([]Term, len(states))
			for i, s := range states {
				if t, ok := s.ghost[k]; ok {
					vs[i] = t
				} else {
					vs[i] = IntLit("0")
				}
			}
			n.ghost[k] = c.define("g."+k, iteChain(conds, vs))
		}
	}
	return n
}

// ---------------------------------------------------------------------------
// loops

// loopTargets computes what the loop body may modify.
func (ex *Exec) loopTargets(li *loopInfo) (cells map[*ssa.Alloc]bool, keys map[string]bool, all bool, allocs bool) {
	cells = map[*ssa.Alloc]bool{}
	keys = map[string]bool{}
	var blocks []*ssa.BasicBlock
	for b := range li.blocks {
		blocks = append(blocks, b)
	}
	sort.Slice(blocks, func(i, j int) bool { return blocks[i].Index < blocks[j].Index })
	for _, b := range blocks {
		for _, in := range b.Instrs {
			m := ex.w.instrMods(ex.c, in, ex)
			if m.all {
				all = true
			}
			for k := range m.keys {
				keys[k] = true
			}
			for a := range m.cells {
				cells[a] = true
			}
			if m.allocs {
				allocs = true
			}
		}
	}
	return
}

func (ex *Exec) loopHead(li *loopInfo, phiIn map[*ssa.Phi]Term) {
	c := ex.c
	pos := ex.pos(loopPos(li.header))
	invs := ex.invariants(li)
	// 1. invariant on entry
	pre := ex.st
	for i, cl := range invs {
		env := ex.contractEnv(pre, ex.entry)
		env.phi = phiIn
		env.loop = li
		g := ex.evalBool(env, cl)
		c.obligeNamed(fmt.Sprintf("inv.entry.L%d.%d", li.ordinal, i+1), "inv.entry", pos, "loop invariant holds on entry: "+cl.Text, ex.rch, g)
	}
	// 2. havoc
	cells, keys, all, allocs := ex.loopTargets(li)
	st := pre.clone()
	if all {
		c.heapHavocAll(st)
	} else {
		lw := ex.loopWriteSet(li, pre, cells, keys, all)
		for _, k := range sortedKeys(keys) {
			c.heapHavoc(st, k)
			ex.assumeLoopFrame(lw, k, pre, st)
		}
	}
	if len(st.ghost) > 0 || (ex.ct != nil && len(ex.ct.Asserts) > 0) {
		hasCall := false
		for b := range li.blocks {
			if ex.instrsHaveEvent(b.Instrs, 0, map[*ssa.Function]bool{}) {
				hasCall = true
			}
		}
		if hasCall && ex.ct != nil {
			if st.ghost == nil {
				st.ghost = map[string]Term{}
			}
			for _, a := range ex.ct.Asserts {
				g := c.freshConst("g.loop."+a.Name, SInt)
				old, ok := pre.ghost[a.Name]
				if !ok {
					old = IntLit("0")
				}
				c.assume(T(SBool, "(>= %s %s)", g.S, old.S))
				st.ghost[a.Name] = g
			}
		}
	}
	var cl []*ssa.Alloc
	for a := range cells {
		if _, live := st.cells[a]; live || true {
			cl = append(cl, a)
		}
	}
	sort.Slice(cl, func(i, j int) bool { return cl[i].Pos() < cl[j].Pos() || (cl[i].Pos() == cl[j].Pos() && cl[i].Name() < cl[j].Name()) })
	ex.st = st
	if allocs || all {
		na := c.freshConst("alloc.loop", SInt)
		c.assume(T(SBool, "(>= %s %s)", na.S, pre.alloc.S))
		st.alloc = na
	}
	for _, a := range cl {
		if !ex.cells[a] {
			continue
		}
		if _, defined := pre.cells[a]; !defined && !li.blocks[a.Block()] {
			continue
		}
		t := a.Type().(*types.Pointer).Elem()
		x := c.freshConst("loop."+a.Comment, c.sortOf(t))
		c.assume(ex.typeFacts(x, t))
		st.cells[a] = x
	}
	for _, in := range li.header.Instrs {
		phi, ok := in.(*ssa.Phi)
		if !ok {
			break
		}
		x := c.freshConst("loop."+phi.Name(), c.sortOf(phi.Type()))
		c.assume(ex.typeFacts(x, phi.Type()))
		ex.vals[phi] = Val{T: x, Ty: phi.Type()}
	}
	// the hidden index of a range-over-slice loop starts at -1 and is only ever incremented by the loop header:
	// -1 <= index is an invariant of the lowering itself (not of the program) and is supplied automatically
	if a := rangeIndexAlloc(li); a != nil && ex.cells[a] {
		if t, ok := st.cells[a]; ok && c.Mode == ArithInt {
			c.assume(Implies(ex.rch, T(SBool, "(<= (- 1) %s)", t.S)))
		}
	}
	// 3. assume invariant
	for _, clz := range invs {
		env := ex.contractEnv(st, ex.entry)
		env.loop = li
		g := ex.evalBool(env, clz)
		c.assume(Implies(ex.rch, g))
	}
	if len(invs) == 0 {
		c.note("loop %d of %s has no invariant (true is used)", li.ordinal, ex.fn.Name())
	}
}

func (ex *Exec) loopLatch(li *loopInfo, latch *ssa.BasicBlock) {
	c := ex.c
	pos := ex.pos(loopPos(li.header))
	guard := And(ex.reach[latch], edgeCond(ex, latch, li.header))
	phiBack := map[*ssa.Phi]Term{}
	for _, in := range li.header.Instrs {
		phi, ok := in.(*ssa.Phi)
		if !ok {
			break
		}
		for i, p := range li.header.Preds {
			if p == latch {
				phiBack[phi] = ex.val(phi.Edges[i]).T
			}
		}
	}
	for i, cl := range ex.invariants(li) {
		env := ex.contractEnv(ex.exit[latch], ex.entry)
		env.phi = phiBack
		env.loop = li
		g := ex.evalBool(env, cl)
		name := fmt.Sprintf("inv.keep.L%d.%d", li.ordinal, i+1)
		if len(li.latches) > 1 {
			for j, l := range li.latches {
				if l == latch {
					name = fmt.Sprintf("%s.e%d", name, j+1)
				}
			}
		}
		c.obligeNamed(name, "inv.keep", pos, "loop invariant is preserved: "+cl.Text, guard, g)
	}
	if len(ex.invariants(li)) > 0 {
		// vacuity guard: the assumptions accumulated along the loop body must not be contradictory
		name := fmt.Sprintf("cover.latch.L%d", li.ordinal)
		if len(li.latches) > 1 {
			for j, l := range li.latches {
				if l == latch {
					name = fmt.Sprintf("%s.e%d", name, j+1)
				}
			}
		}
		cv := c.obligeNamed(name, "cover", pos, "the end of the loop body is reachable under the assumptions made", guard, tTrue)
		cv.Cover = true
	}
}

func (ex *Exec) invariants(li *loopInfo) []*Clause {
	if ex.ct == nil {
		return nil
	}
	return ex.ct.LoopInv[li.ordinal]
}

// ---------------------------------------------------------------------------
// instructions

func (ex *Exec) set(v ssa.Value, x Val) {
	if x.T.S != "" && x.Loc == nil && len(x.Tuple) == 0 {
		x.T = ex.c.define(ex.fnPrefix()+v.Name(), x.T)
	}
	ex.vals[v] = x
}

func (ex *Exec) fnPrefix() string {
	if ex.depth > 0 {
		return fmt.Sprintf("i%d.", ex.depth)
	}
	return ""
}

func (ex *Exec) instr(in ssa.Instruction) {
	c := ex.c
	switch in := in.(type) {
	case *ssa.DebugRef:
	case *ssa.Alloc:
		ex.doAlloc(in)
	case *ssa.Store:
		l := ex.locOf(in.Addr)
		ex.nilCheck(l, in.Pos())
		v := ex.val(in.Val)
		ex.storeLoc(ex.st, l, ex.coerce(v, l.Ty).T)
	case *ssa.UnOp:
		ex.doUnOp(in)
	case *ssa.BinOp:
		ex.set(in, ex.binop(in.Op, ex.val(in.X), ex.val(in.Y), in.Type(), in.Pos(), false))
	case *ssa.FieldAddr:
		base := ex.locOf(in.X)
		st := in.X.Type().Underlying().(*types.Pointer).Elem()
		ft := st.Underlying().(*types.Struct).Field(in.Field).Type()
		if base.Kind == LStruct && len(base.Path) == 0 {
			ex.nilCheck(base, in.Pos())
			ex.vals[in] = Val{Ty: in.Type(), Loc: &Loc{Kind: LField, Ref: base.Ref, StructT: base.StructT, Field: in.Field, Ty: ft}}
		} else {
			ex.vals[in] = Val{Ty: in.Type(), Loc: base.withStep(pathStep{field: in.Field, cont: st}, ft)}
		}
	case *ssa.Field:
		x := ex.val(in.X)
		ex.set(in, Val{T: c.structField(x.T, in.X.Type(), in.Field), Ty: in.Type()})
	case *ssa.IndexAddr:
		ex.doIndexAddr(in)
	case *ssa.Index:
		x := ex.val(in.X)
		idx := ex.asIdx(ex.val(in.Index))
		switch u := in.X.Type().Underlying().(type) {
		case *types.Array:
			ex.obligeSafety("idx", ex.pos(in.Pos()), "array index in range", ex.inBounds(idx, c.idxLit(u.Len())))
			ex.set(in, Val{T: Select(x.T, idx, c.sortOf(u.Elem())), Ty: in.Type()})
		default:
			if isString(in.X.Type()) {
				ex.obligeSafety("idx", ex.pos(in.Pos()), "string index in range", ex.inBounds(idx, T(c.idxSort(), "(str.len %s)", x.T.S)))
				ex.set(in, Val{T: T(c.intSort(8, false), "(str.at %s %s)", x.T.S, idx.S), Ty: in.Type()})
			} else {
				panic(unsupported("Index on %s", in.X.Type()))
			}
		}
	case *ssa.Lookup:
		ex.doLookup(in)
	case *ssa.MapUpdate:
		ex.doMapUpdate(in)
	case *ssa.MakeMap:
		ref := ex.allocRef()
		mt := in.Type().Underlying().(*types.Map)
		kh, kl := c.keyMapHas(mt), c.keyMapLen(mt)
		ks := c.sortOf(mt.Key())
		c.heapSet(ex.st, kh, Store(c.heapGet(ex.st, kh), ref, T(ArraySort(ks, SBool), "((as const %s) false)", ArraySort(ks, SBool))))
		c.heapSet(ex.st, kl, Store(c.heapGet(ex.st, kl), ref, c.idxLit(0)))
		if sum0, msd := ex.mapSumTerm(ex.st, mt, ref); msd != nil {
			c.assume(Implies(ex.rch, T(SBool, "(= %s 0)", sum0.S))) // ghost: an empty map sums to 0
		}
		ex.set(in, Val{T: ref, Ty: in.Type()})
	case *ssa.MakeSlice:
		ex.doMakeSlice(in)
	case *ssa.Slice:
		ex.doSlice(in)
	case *ssa.Call:
		ex.doCall(in)
	case *ssa.Extract:
		t := ex.val(in.Tuple)
		if in.Index >= len(t.Tuple) {
			panic(unsupported("extract %d of %s", in.Index, in.Tuple.Name()))
		}
		ex.vals[in] = t.Tuple[in.Index]
	case *ssa.Convert:
		ex.doConvert(in)
	case *ssa.ChangeType:
		x := ex.val(in.X)
		ex.vals[in] = ex.coerce(Val{T: x.T, Ty: x.Ty, Fn: x.Fn, Bind: x.Bind}, in.Type())
	case *ssa.ChangeInterface:
		x := ex.val(in.X)
		ex.vals[in] = Val{T: x.T, Ty: in.Type()}
	case *ssa.MakeInterface:
		ex.doMakeInterface(in)
	case *ssa.TypeAssert:
		ex.doTypeAssert(in)
	case *ssa.MakeClosure:
		fn := in.Fn.(*ssa.Function)
		binds := make([]Val, len(in.Bindings))
		for i, b := range in.Bindings {
			binds[i] = ex.escapeVal(b)
			if a, ok := b.(*ssa.Alloc); ok {
				r := ex
				for r.parent != nil {
					r = r.parent
				}
				if r.madeClosure == nil {
					r.madeClosure = map[*ssa.Alloc]bool{}
				}
				r.madeClosure[a] = true
			}
		}
		ref := ex.allocRef()
		ex.vals[in] = Val{T: ref, Ty: in.Type(), Fn: fn, Bind: binds}
	case *ssa.Range:
		x := ex.val(in.X)
		ex.vals[in] = Val{T: x.T, Ty: in.X.Type()}
		if mt, ok := in.X.Type().Underlying().(*types.Map); ok {
			// ghost: no key of this map has been produced yet
			c := ex.c
			kv := c.keyMapVisited(mt)
			ks := c.sortOf(mt.Key())
			empty := T(ArraySort(ks, SBool), "((as const %s) false)", ArraySort(ks, SBool))
			c.heapSet(ex.st, kv, Store(c.heapGet(ex.st, kv), x.T, empty))
		}
	case *ssa.Next:
		ex.doNext(in)
	case *ssa.Defer:
		ex.defers = append(ex.defers, in)
	case *ssa.RunDefers:
		for i := len(ex.defers) - 1; i >= 0; i-- {
			ex.doDeferred(ex.defers[i])
		}
	case *ssa.Go:
		c.note("%s: go statement at %s skipped (asynchronous effects are outside the sequential contract)", ex.fn.Name(), relPos(ex.pos(in.Pos())))
		c.trust("go statements skipped (effects of spawned goroutines not modelled)")
		// the spawn itself is a call event for assert-call clauses: the arguments handed to the goroutine can be constrained
		if callee := in.Call.StaticCallee(); callee != nil && !in.Call.IsInvoke() {
			ex.curCall = &in.Call
			ex.assertCalls(callee.String(), paramNames(callee), ex.argVals(&in.Call), in.Pos())
		}
	case *ssa.Send:
		c.note("%s: channel send at %s modelled as no-op", ex.fn.Name(), relPos(ex.pos(in.Pos())))
		c.trust("channel sends modelled as no-ops (blocking and delivery not modelled)")
		// the send itself is a call event named "send" (parameters ch, value) for assert-call clauses: "this request is answered here"
		ex.curCall = nil
		ex.assertCalls("send", []string{"ch", "value"}, []Val{ex.val(in.Chan), ex.val(in.X)}, in.Pos())
	case *ssa.MakeChan:
		ex.set(in, Val{T: ex.allocRef(), Ty: in.Type()})
	case *ssa.If, *ssa.Jump:
	case *ssa.Return:
		rs := make([]Val, len(in.Results))
		for i, r := range in.Results {
			rs[i] = ex.val(r)
			if rs[i].Loc != nil {
				rs[i] = ex.escapeVal(r)
			}
		}
		ex.rets = append(ex.rets, retInfo{guard: ex.rch, results: rs, state: ex.st.clone(), pos: in.Pos()})
	case *ssa.Panic:
		if ex.safetyEnabled("panic") {
			ex.obligeSafety("panic", ex.pos(in.Pos()), "explicit panic is unreachable", tFalse)
		}
	case *ssa.Select:
		ex.doSelect(in)
	default:
		panic(unsupported("instruction %T (%s) in %s", in, in, ex.fn.Name()))
	}
}

func (ex *Exec) nilCheck(l *Loc, p token.Pos) {
	switch l.Kind {
	case LField, LStruct, LBox, LElem:
		if l.Kind == LElem && l.Idx.S != "" {
			return
		}
		if ex.safetyEnabled("nil") {
			ex.obligeSafety("nil", ex.pos(p), "pointer is not nil", Not(Eq(l.Ref, IntLit("0"))))
		}
	}
}

func (ex *Exec) inBounds(idx, n Term) Term {
	if ex.c.Mode == ArithBV {
		return T(SBool, "(and (bvsle #x0000000000000000 %s) (bvslt %s %s))", idx.S, idx.S, n.S)
	}
	return T(SBool, "(and (<= 0 %s) (< %s %s))", idx.S, idx.S, n.S)
}

func (ex *Exec) idxLe(a, b Term) Term {
	if ex.c.Mode == ArithBV {
		return T(SBool, "(bvsle %s %s)", a.S, b.S)
	}
	return T(SBool, "(<= %s %s)", a.S, b.S)
}

func (ex *Exec) idxAdd(a, b Term) Term {
	if ex.c.Mode == ArithBV {
		return T(ex.c.idxSort(), "(bvadd %s %s)", a.S, b.S)
	}
	if a.S == "0" {
		return b
	}
	if b.S == "0" {
		return a
	}
	return T(SInt, "(+ %s %s)", a.S, b.S)
}

func (ex *Exec) idxSub(a, b Term) Term {
	if ex.c.Mode == ArithBV {
		return T(ex.c.idxSort(), "(bvsub %s %s)", a.S, b.S)
	}
	if b.S == "0" {
		return a
	}
	return T(SInt, "(- %s %s)", a.S, b.S)
}

// asIdx converts an integer value of any integer type to the index sort.
func (ex *Exec) asIdx(v Val) Term {
	if ex.c.Mode == ArithBV {
		if v.Wide {
			return ex.c.narrow(v, types.Typ[types.Int])
		}
		return ex.c.bvResize(v.T, intWidth(v.Ty), 64, !isUnsigned(v.Ty))
	}
	return v.T
}

func sliceArr(s Term) Term { return Term{"(s.arr " + s.S + ")", SRef} }
func (ex *Exec) sliceOff(s Term) Term { return Term{"(s.off " + s.S + ")", ex.c.idxSort()} }
func (ex *Exec) sliceLen(s Term) Term { return Term{"(s.len " + s.S + ")", ex.c.idxSort()} }
func (ex *Exec) sliceCap(s Term) Term { return Term{"(s.cap " + s.S + ")", ex.c.idxSort()} }

func (ex *Exec) mkSlice(arr, off, ln, cp Term) Term {
	return T(SSl, "(mk-slice %s %s %s %s)", arr.S, off.S, ln.S, cp.S)
}

func (ex *Exec) doAlloc(a *ssa.Alloc) {
	c := ex.c
	t := a.Type().(*types.Pointer).Elem()
	if ex.cells[a] {
		ex.st.cells[a] = c.zero(t)
		ex.vals[a] = Val{Ty: a.Type(), Loc: &Loc{Kind: LCell, Cell: a, Ty: t}}
		return
	}
	ref := ex.allocRef()
	l := ex.locOfRef(ref, t)
	switch l.Kind {
	case LElem:
		k := c.keyElem(l.ElemT)
		es := c.heapSorts[k].elem
		c.heapSet(ex.st, k, Store(c.heapGet(ex.st, k), ref, T(ArraySort(c.idxSort(), es), "((as const %s) %s)", ArraySort(c.idxSort(), es), c.zero(l.ElemT).S)))
	default:
		ex.storeLoc(ex.st, l, c.zero(t))
	}
	ex.vals[a] = Val{T: ref, Ty: a.Type()}
}

func (ex *Exec) doUnOp(in *ssa.UnOp) {
	c := ex.c
	switch in.Op {
	case token.MUL:
		l := ex.locOf(in.X)
		ex.nilCheck(l, in.Pos())
		v := ex.loadLoc(ex.st, l)
		v = c.define(ex.fnPrefix()+in.Name(), v)
		c.assume(Implies(ex.rch, ex.typeFacts(v, in.Type())))
		ex.vals[in] = Val{T: v, Ty: in.Type()}
		if g, ok := in.X.(*ssa.Global); ok {
			ex.globalRegexpFacts(g, v)
		}
	case token.NOT:
		ex.set(in, Val{T: Not(ex.val(in.X).T), Ty: in.Type()})
	case token.SUB:
		x := ex.val(in.X)
		if isFloat(in.Type()) {
			ex.set(in, Val{T: T(SReal, "(- %s)", x.T.S), Ty: in.Type()})
			return
		}
		zero := Val{T: c.intLit64(0, in.Type()), Ty: in.Type()}
		ex.set(in, ex.binop(token.SUB, zero, x, in.Type(), in.Pos(), false))
	case token.XOR:
		x := ex.val(in.X)
		if c.Mode == ArithBV {
			ex.set(in, Val{T: T(x.T.Sort, "(bvnot %s)", x.T.S), Ty: in.Type()})
		} else if isUnsigned(in.Type()) {
			_, hi := typeRange(in.Type())
			ex.set(in, Val{T: T(SInt, "(- %s %s)", hi.String(), x.T.S), Ty: in.Type()})
		} else {
			ex.set(in, Val{T: T(SInt, "(- (- %s) 1)", x.T.S), Ty: in.Type()})
		}
	case token.ARROW:
		c.note("%s: channel receive at %s yields an unconstrained value", ex.fn.Name(), relPos(ex.pos(in.Pos())))
		ex.vals[in] = ex.freshVal("recv", in.Type())
	default:
		panic(unsupported("unop %s", in.Op))
	}
}

func (ex *Exec) doIndexAddr(in *ssa.IndexAddr) {
	c := ex.c
	idx := ex.asIdx(ex.val(in.Index))
	switch u := in.X.Type().Underlying().(type) {
	case *types.Slice:
		s := ex.val(in.X).T
		ex.obligeSafety("idx", ex.pos(in.Pos()), fmt.Sprintf("index in range of %s", exprName(in.X)), ex.inBounds(idx, ex.sliceLen(s)))
		ex.vals[in] = Val{Ty: in.Type(), Loc: &Loc{Kind: LElem, Ref: sliceArr(s), ElemT: u.Elem(), Idx: c.define("ix", ex.idxAdd(ex.sliceOff(s), idx)), Ty: u.Elem(), SliceT: s, RelIdx: idx}}
	case *types.Pointer:
		arr := u.Elem().Underlying().(*types.Array)
		ex.obligeSafety("idx", ex.pos(in.Pos()), "array index in range", ex.inBounds(idx, c.idxLit(arr.Len())))
		base := ex.locOf(in.X)
		if base.Kind == LElem && base.Idx.S == "" && len(base.Path) == 0 {
			ex.vals[in] = Val{Ty: in.Type(), Loc: &Loc{Kind: LElem, Ref: base.Ref, ElemT: arr.Elem(), Idx: idx, Ty: arr.Elem()}}
		} else {
			i := idx
			ex.vals[in] = Val{Ty: in.Type(), Loc: base.withStep(pathStep{idx: &i, cont: u.Elem()}, arr.Elem())}
		}
	default:
		panic(unsupported("IndexAddr on %s", in.X.Type()))
	}
}

func exprName(v ssa.Value) string {
	if u, ok := v.(*ssa.UnOp); ok && u.Op == token.MUL {
		if a, ok := u.X.(*ssa.Alloc); ok && a.Comment != "" {
			return a.Comment
		}
		// a package-level function variable (var timeNow = time.Now) is known by its name
		if g, ok := u.X.(*ssa.Global); ok {
			return g.Name()
		}
		// a function-typed struct field (pa.onUnavailableHook) is known by the field name
		if fa, ok := u.X.(*ssa.FieldAddr); ok {
			if pt, ok := fa.X.Type().Underlying().(*types.Pointer); ok {
				if st, ok := pt.Elem().Underlying().(*types.Struct); ok && fa.Field < st.NumFields() {
					return st.Field(fa.Field).Name()
				}
			}
		}
	}
	return v.Name()
}

func (ex *Exec) doMakeSlice(in *ssa.MakeSlice) {
	c := ex.c
	ln := ex.asIdx(ex.val(in.Len))
	cp := ex.asIdx(ex.val(in.Cap))
	zero := c.idxLit(0)
	ex.obligeSafety("make-neg", ex.pos(in.Pos()), "make: 0 <= len <= cap", And(ex.idxLe(zero, ln), ex.idxLe(ln, cp)))
	if ex.safetyEnabled("alloc-bound") {
		ex.obligeSafety("alloc-bound", ex.pos(in.Pos()), "make: size bounded by 2^31", ex.idxLe(cp, c.idxLit(1<<31)))
	}
	ref := ex.allocRef()
	et := in.Type().Underlying().(*types.Slice).Elem()
	k := c.keyElem(et)
	es := c.heapSorts[k].elem
	c.heapSet(ex.st, k, Store(c.heapGet(ex.st, k), ref, T(ArraySort(c.idxSort(), es), "((as const %s) %s)", ArraySort(c.idxSort(), es), c.zero(et).S)))
	ex.set(in, Val{T: ex.mkSlice(ref, zero, ln, cp), Ty: in.Type()})
}

func (ex *Exec) doSlice(in *ssa.Slice) {
	c := ex.c
	zero := c.idxLit(0)
	opt := func(v ssa.Value, def Term) Term {
		if v == nil {
			return def
		}
		return ex.asIdx(ex.val(v))
	}
	switch u := in.X.Type().Underlying().(type) {
	case *types.Slice:
		s := ex.val(in.X).T
		lo := opt(in.Low, zero)
		hi := opt(in.High, ex.sliceLen(s))
		mx := opt(in.Max, ex.sliceCap(s))
		ex.obligeSafety("slice", ex.pos(in.Pos()), fmt.Sprintf("slice bounds in range of %s", exprName(in.X)),
			And(ex.idxLe(zero, lo), ex.idxLe(lo, hi), ex.idxLe(hi, mx), ex.idxLe(mx, ex.sliceCap(s))))
		ex.set(in, Val{T: ex.mkSlice(sliceArr(s), ex.idxAdd(ex.sliceOff(s), lo), ex.idxSub(hi, lo), ex.idxSub(mx, lo)), Ty: in.Type()})
	case *types.Basic:
		s := ex.val(in.X).T
		ln := T(c.idxSort(), "(str.len %s)", s.S)
		lo := opt(in.Low, zero)
		hi := opt(in.High, ln)
		ex.obligeSafety("slice", ex.pos(in.Pos()), "string slice bounds in range", And(ex.idxLe(zero, lo), ex.idxLe(lo, hi), ex.idxLe(hi, ln)))
		ex.set(in, Val{T: ex.strSubstr(s, lo, hi), Ty: in.Type()})
	case *types.Pointer:
		arr := u.Elem().Underlying().(*types.Array)
		n := c.idxLit(arr.Len())
		lo := opt(in.Low, zero)
		hi := opt(in.High, n)
		mx := opt(in.Max, n)
		ex.obligeSafety("slice", ex.pos(in.Pos()), "array slice bounds in range", And(ex.idxLe(zero, lo), ex.idxLe(lo, hi), ex.idxLe(hi, mx), ex.idxLe(mx, n)))
		base := ex.locOf(in.X)
		if base.Kind != LElem || base.Idx.S != "" || len(base.Path) != 0 {
			// an array embedded in a struct (or another array): the slice is modelled as a copy of the
			// current contents in a fresh backing array
			arrVal := ex.loadLoc(ex.st, base)
			ref := ex.allocRef()
			k := c.keyElem(arr.Elem())
			c.heapSet(ex.st, k, Store(c.heapGet(ex.st, k), ref, arrVal))
			c.trust("a slice of an array embedded in a struct is modelled as a copy (writes through it are not propagated back)")
			c.note("%s: slice of an embedded array at %s modelled as a copy", ex.fn.Name(), relPos(ex.pos(in.Pos())))
			ex.set(in, Val{T: ex.mkSlice(ref, lo, ex.idxSub(hi, lo), ex.idxSub(mx, lo)), Ty: in.Type()})
			return
		}
		ex.set(in, Val{T: ex.mkSlice(base.Ref, lo, ex.idxSub(hi, lo), ex.idxSub(mx, lo)), Ty: in.Type()})
	default:
		panic(unsupported("Slice on %s", in.X.Type()))
	}
}

func (ex *Exec) strSubstr(s, lo, hi Term) Term {
	c := ex.c
	idx := c.idxSort()
	c.decl("fn:str.substr", fmt.Sprintf("(declare-fun str.substr (Str %s %s) Str)", idx, idx))
	if c.Mode == ArithInt {
		c.decl("ax:substr.len", "(assert (forall ((s Str) (a Int) (b Int)) (! (=> (and (<= 0 a) (<= a b) (<= b (str.len s))) (= (str.len (str.substr s a b)) (- b a))) :pattern ((str.substr s a b)))))")
		c.decl("ax:substr.at", "(assert (forall ((s Str) (a Int) (b Int) (i Int)) (! (=> (and (<= 0 a) (<= a b) (<= b (str.len s)) (<= 0 i) (< i (- b a))) (= (str.at (str.substr s a b) i) (str.at s (+ a i)))) :pattern ((str.at (str.substr s a b) i)))))")
		c.decl("ax:substr.id", "(assert (forall ((s Str)) (! (= (str.substr s 0 (str.len s)) s) :pattern ((str.substr s 0 (str.len s))))))")
	}
	if lo.S == "0" && hi.S == "(str.len "+s.S+")" {
		return s
	}
	return T(SStr, "(str.substr %s %s %s)", s.S, lo.S, hi.S)
}

func (ex *Exec) strConcat(a, b Term) Term {
	c := ex.c
	c.decl("fn:str.concat", "(declare-fun str.concat (Str Str) Str)")
	if c.Mode == ArithInt {
		c.decl("ax:concat.len", "(assert (forall ((a Str) (b Str)) (! (= (str.len (str.concat a b)) (+ (str.len a) (str.len b))) :pattern ((str.concat a b)))))")
		c.decl("ax:concat.at", "(assert (forall ((a Str) (b Str) (i Int)) (! (= (str.at (str.concat a b) i) (ite (< i (str.len a)) (str.at a i) (str.at b (- i (str.len a))))) :pattern ((str.at (str.concat a b) i)))))")
		c.decl("ax:concat.e1", "(assert (forall ((a Str)) (! (= (str.concat a str.empty) a) :pattern ((str.concat a str.empty)))))")
		c.decl("ax:concat.e2", "(assert (forall ((a Str)) (! (= (str.concat str.empty a) a) :pattern ((str.concat str.empty a)))))")
	}
	return T(SStr, "(str.concat %s %s)", a.S, b.S)
}

// coerce adapts a value to an expected type (struct sort differences, untyped constants).
func (ex *Exec) coerce(v Val, t types.Type) Val {
	c := ex.c
	if v.Const != nil {
		return c.materialise(v, t)
	}
	if v.T.S == "" {
		return v
	}
	want := c.sortOf(t)
	if v.T.Sort == want {
		v.Ty = t
		return v
	}
	// identical underlying struct types with different names
	if s1, ok := v.Ty.Underlying().(*types.Struct); ok {
		if s2, ok2 := t.Underlying().(*types.Struct); ok2 && s1.NumFields() == s2.NumFields() {
			x := c.define("cv", v.T)
			fs := make([]Term, s1.NumFields())
			for i := range fs {
				fs[i] = ex.coerce(Val{T: c.structField(x, v.Ty, i), Ty: s1.Field(i).Type()}, s2.Field(i).Type()).T
			}
			return Val{T: c.structMake(t, fs), Ty: t}
		}
	}
	if isInteger(t) && isInteger(v.Ty) {
		return c.convertInt(v, t, false)
	}
	panic(unsupported("cannot coerce %s (%s) to %s (%s)", v.Ty, v.T.Sort, t, want))
}

func (ex *Exec) binop(op token.Token, x, y Val, rt types.Type, p token.Pos, spec bool) Val {
	c := ex.c
	boolT := types.Typ[types.Bool]
	// slice compared with the nil literal: only the backing reference matters
	isNil := func(v Val) bool { return v.Const != nil && v.Ty != nil && v.Ty == types.Typ[types.UntypedNil] }
	if (op == token.EQL || op == token.NEQ) && ((isNil(x) && y.T.Sort == SSl) || (isNil(y) && x.T.Sort == SSl)) {
		s := x.T
		if isNil(x) {
			s = y.T
		}
		r := Eq(sliceArr(s), IntLit("0"))
		if op == token.NEQ {
			r = Not(r)
		}
		return Val{T: r, Ty: boolT}
	}
	// untyped constants adapt to the other operand
	if x.Const != nil && y.Const == nil {
		x = c.materialise(x, y.Ty)
	}
	if y.Const != nil && x.Const == nil {
		if op == token.SHL || op == token.SHR {
			y = c.materialise(y, types.Typ[types.Uint])
		} else {
			y = c.materialise(y, x.Ty)
		}
	}
	if x.Const != nil && y.Const != nil {
		panic(unsupported("constant folding of %s %s %s", x.Const, op, y.Const))
	}
	xt := x.Ty
	switch {
	case isInteger(xt):
		ex.arithN++
		o := &arithOpts{spec: spec, pos: ex.pos(p)}
		if ex.ct != nil && ex.ct.Wraps[ex.arithN] {
			o.wraps = true
		}
		t := xt
		if rt != nil && isInteger(rt) {
			t = rt
		}
		var e *Exec
		if !spec {
			e = ex
		}
		return c.intBinop(op, x, y, t, o, e)
	case isBool(xt):
		switch op {
		case token.EQL:
			return Val{T: Eq(x.T, y.T), Ty: boolT}
		case token.NEQ:
			return Val{T: Not(Eq(x.T, y.T)), Ty: boolT}
		case token.LAND, token.AND:
			return Val{T: And(x.T, y.T), Ty: boolT}
		case token.LOR, token.OR:
			return Val{T: Or(x.T, y.T), Ty: boolT}
		}
	case isString(xt):
		switch op {
		case token.EQL:
			return Val{T: Eq(x.T, y.T), Ty: boolT}
		case token.NEQ:
			return Val{T: Not(Eq(x.T, y.T)), Ty: boolT}
		case token.ADD:
			return Val{T: ex.strConcat(x.T, y.T), Ty: xt}
		case token.LSS, token.LEQ, token.GTR, token.GEQ:
			c.decl("fn:str.lt", "(declare-fun str.lt (Str Str) Bool)")
			c.decl("ax:str.lt.irr", "(assert (forall ((a Str)) (! (not (str.lt a a)) :pattern ((str.lt a a)))))")
			c.decl("ax:str.lt.tot", "(assert (forall ((a Str) (b Str)) (! (or (str.lt a b) (str.lt b a) (= a b)) :pattern ((str.lt a b)))))")
			c.decl("ax:str.lt.asym", "(assert (forall ((a Str) (b Str)) (! (not (and (str.lt a b) (str.lt b a))) :pattern ((str.lt a b)))))")
			c.decl("ax:str.lt.trans", "(assert (forall ((a Str) (b Str) (d Str)) (! (=> (and (str.lt a b) (str.lt b d)) (str.lt a d)) :pattern ((str.lt a b) (str.lt b d)))))")
			lt := func(a, b Term) Term { return T(SBool, "(str.lt %s %s)", a.S, b.S) }
			switch op {
			case token.LSS:
				return Val{T: lt(x.T, y.T), Ty: boolT}
			case token.GTR:
				return Val{T: lt(y.T, x.T), Ty: boolT}
			case token.LEQ:
				return Val{T: Not(lt(y.T, x.T)), Ty: boolT}
			case token.GEQ:
				return Val{T: Not(lt(x.T, y.T)), Ty: boolT}
			}
		}
	case isFloat(xt):
		sym := map[token.Token]string{token.ADD: "+", token.SUB: "-", token.MUL: "*", token.QUO: "/", token.LSS: "<", token.LEQ: "<=", token.GTR: ">", token.GEQ: ">=", token.EQL: "=", token.NEQ: "distinct"}[op]
		if sym == "" {
			break
		}
		c.trust("floating point modelled as reals")
		switch op {
		case token.ADD, token.SUB, token.MUL, token.QUO:
			return Val{T: T(SReal, "(%s %s %s)", sym, x.T.S, y.T.S), Ty: xt}
		}
		return Val{T: T(SBool, "(%s %s %s)", sym, x.T.S, y.T.S), Ty: boolT}
	default:
		// references, structs, arrays: equality only
		a, b := x.T, y.T
		if a.Sort != b.Sort {
			// interface vs concrete comparisons: compare references
			if a.Sort == SSl || b.Sort == SSl {
				// slice compared with nil
				if a.Sort == SSl {
					a = sliceArr(a)
				}
				if b.Sort == SSl {
					b = sliceArr(b)
				}
			}
		} else if a.Sort == SSl && !spec {
			// Go only allows comparing a slice with nil
			a, b = sliceArr(a), sliceArr(b)
		}
		switch op {
		case token.EQL:
			return Val{T: Eq(a, b), Ty: boolT}
		case token.NEQ:
			return Val{T: Not(Eq(a, b)), Ty: boolT}
		}
	}
	panic(unsupported("binop %s on %s", op, xt))
}

func (ex *Exec) doConvert(in *ssa.Convert) {
	c := ex.c
	x := ex.val(in.X)
	from, to := in.X.Type(), in.Type()
	switch {
	case isInteger(from) && isInteger(to):
		ex.set(in, c.convertInt(x, to, false))
	case isString(from) && isByteSlice(to):
		ex.set(in, Val{T: ex.bytesOfString(x.T), Ty: to})
	case isByteSlice(from) && isString(to):
		ex.set(in, Val{T: ex.stringOfBytes(ex.st, x.T), Ty: to})
	case isInteger(from) && isString(to):
		c.decl("fn:str.ofrune", fmt.Sprintf("(declare-fun str.ofrune (%s) Str)", c.sortOf(from)))
		ex.set(in, Val{T: T(SStr, "(str.ofrune %s)", x.T.S), Ty: to})
	case isInteger(from) && isFloat(to):
		if c.Mode == ArithInt {
			ex.set(in, Val{T: T(SReal, "(to_real %s)", x.T.S), Ty: to})
		} else {
			ex.vals[in] = ex.freshVal("conv", to)
		}
	case isFloat(from) && isInteger(to):
		c.note("float to integer conversion yields an unconstrained in-range value")
		ex.vals[in] = ex.freshVal("conv", to)
	case isFloat(from) && isFloat(to):
		ex.set(in, Val{T: x.T, Ty: to})
	case c.sortOf(from) == c.sortOf(to):
		ex.set(in, Val{T: x.T, Ty: to})
	default:
		c.note("conversion %s -> %s yields an unconstrained value", from, to)
		ex.vals[in] = ex.freshVal("conv", to)
	}
}

func isByteSlice(t types.Type) bool {
	s, ok := t.Underlying().(*types.Slice)
	if !ok {
		return false
	}
	b, ok := s.Elem().Underlying().(*types.Basic)
	return ok && b.Kind() == types.Uint8
}

// bytesOfString: []byte(s) is a fresh slice holding the bytes of s.
func (ex *Exec) bytesOfString(s Term) Term {
	c := ex.c
	ref := ex.allocRef()
	k := c.keyElem(types.Typ[types.Uint8])
	idx := c.idxSort()
	arr := c.freshConst("bytesof", ArraySort(idx, c.intSort(8, false)))
	zero := c.idxLit(0)
	if c.Mode == ArithInt {
		c.assume(T(SBool, "(forall ((i Int)) (! (=> (and (<= 0 i) (< i (str.len %s))) (= (select %s i) (str.at %s i))) :pattern ((select %s i))))", s.S, arr.S, s.S, arr.S))
	} else {
		c.assume(T(SBool, "(forall ((i %s)) (! (= (select %s i) (str.at %s i)) :pattern ((select %s i))))", idx, arr.S, s.S, arr.S))
	}
	c.heapSet(ex.st, k, Store(c.heapGet(ex.st, k), ref, arr))
	ln := T(idx, "(str.len %s)", s.S)
	// converting the fresh bytes back yields the string (holds for the array value, whatever happens to the heap later)
	ex.declOfBytes()
	c.assume(T(SBool, "(= (str.ofbytes %s %s %s) %s)", arr.S, zero.S, ln.S, s.S))
	return ex.mkSlice(ref, zero, ln, ln)
}

// stringOfBytes: string(b) has the length and bytes of b at this moment.
func (ex *Exec) stringOfBytes(st *State, b Term) Term {
	c := ex.c
	k := c.keyElem(types.Typ[types.Uint8])
	h := c.heapGet(st, k)
	ex.declOfBytes()
	return T(SStr, "(str.ofbytes (select %s (s.arr %s)) (s.off %s) (s.len %s))", h.S, b.S, b.S, b.S)
}

func (ex *Exec) doMakeInterface(in *ssa.MakeInterface) {
	c := ex.c
	x := ex.val(in.X)
	xt := in.X.Type()
	if x.Loc != nil {
		x = ex.escapeVal(in.X)
	}
	switch xt.Underlying().(type) {
	case *types.Pointer, *types.Map, *types.Chan, *types.Signature:
		c.assume(Implies(And(ex.rch, Not(Eq(x.T, IntLit("0")))), Eq(T(SInt, "(dyntype %s)", x.T.S), c.typeTag(xt))))
		c.trust("an interface holding a nil pointer is identified with the nil interface")
		ex.vals[in] = Val{T: x.T, Ty: in.Type(), Fn: x.Fn, Bind: x.Bind}
		return
	case *types.Interface:
		ex.vals[in] = Val{T: x.T, Ty: in.Type()}
		return
	}
	ref := ex.allocRef()
	s := c.sortOf(xt)
	ub := ex.unboxFn(s)
	// facts about an allocated reference hold only on paths that execute this allocation: references allocated
	// on mutually exclusive paths may carry the same number
	c.assume(Implies(ex.rch, Eq(T(s, "(%s %s)", ub, ref.S), x.T)))
	c.assume(Implies(ex.rch, Eq(T(SInt, "(dyntype %s)", ref.S), c.typeTag(xt))))
	ex.set(in, Val{T: ref, Ty: in.Type()})
}

func (ex *Exec) unboxFn(s Sort) string {
	name := "unbox." + sanitizeSym(string(s))
	ex.c.decl("fn:"+name, fmt.Sprintf("(declare-fun %s (Int) %s)", name, s))
	return name
}

func (ex *Exec) doTypeAssert(in *ssa.TypeAssert) {
	c := ex.c
	x := ex.val(in.X)
	at := in.AssertedType
	var ok, v Term
	if _, isIface := at.Underlying().(*types.Interface); isIface {
		okc := c.freshConst("ta.ok", SBool)
		c.assume(Implies(okc, Not(Eq(x.T, IntLit("0")))))
		ok = okc
		v = x.T
	} else {
		ok = And(Not(Eq(x.T, IntLit("0"))), Eq(T(SInt, "(dyntype %s)", x.T.S), c.typeTag(at)))
		s := c.sortOf(at)
		switch at.Underlying().(type) {
		case *types.Pointer, *types.Map, *types.Chan, *types.Signature:
			v = x.T
		default:
			v = T(s, "(%s %s)", ex.unboxFn(s), x.T.S)
		}
	}
	if in.CommaOk {
		okd := c.define("ta.ok", ok)
		val := Ite(okd, v, c.zero(at))
		ex.vals[in] = Val{Ty: in.Type(), Tuple: []Val{{T: c.define("ta.v", val), Ty: at}, {T: okd, Ty: types.Typ[types.Bool]}}}
		return
	}
	ex.obligeSafety("assert-type", ex.pos(in.Pos()), fmt.Sprintf("type assertion to %s succeeds", at), ok)
	c.assume(Implies(ex.rch, ex.typeFacts(v, at)))
	ex.set(in, Val{T: v, Ty: at})
}

func (ex *Exec) mapHas(st *State, mt *types.Map, m, k Term) Term {
	c := ex.c
	kh := c.keyMapHas(mt)
	ks := c.sortOf(mt.Key())
	return Select(Select(c.heapGet(st, kh), m, ArraySort(ks, SBool)), k, SBool)
}

func (ex *Exec) mapVal(st *State, mt *types.Map, m, k Term) Term {
	c := ex.c
	kv := c.keyMapVal(mt)
	ks := c.sortOf(mt.Key())
	vs := c.sortOf(mt.Elem())
	return Select(Select(c.heapGet(st, kv), m, ArraySort(ks, vs)), k, vs)
}

func (ex *Exec) mapLen(st *State, mt *types.Map, m Term) Term {
	c := ex.c
	ln := Select(c.heapGet(st, c.keyMapLen(mt)), m, c.idxSort())
	// a property of every Go map, stated for the map object whose length is read: length 0 means no key is present
	// (the ghost cardinality and the membership array are otherwise independent after a havoc)
	if c.Mode == ArithInt && !hasBoundVar(m.S) && !hasBoundVar(ln.S) {
		ks := c.sortOf(mt.Key())
		has := Select(c.heapGet(st, c.keyMapHas(mt)), m, ArraySort(ks, SBool))
		key := "maplen0:" + ln.S + ":" + has.S
		if !c.declKeys[key] {
			c.declKeys[key] = true
			c.fresh++
			bv := fmt.Sprintf("k!ml%d", c.fresh)
			c.assume(T(SBool, "(=> (= %s 0) (forall ((%s %s)) (! (not (select %s %s)) :pattern ((select %s %s)))))", ln.S, bv, ks, has.S, bv, has.S, bv))
		}
	}
	return ln
}

func (ex *Exec) doLookup(in *ssa.Lookup) {
	c := ex.c
	x := ex.val(in.X)
	if isString(in.X.Type()) {
		idx := ex.asIdx(ex.val(in.Index))
		ex.obligeSafety("idx", ex.pos(in.Pos()), "string index in range", ex.inBounds(idx, T(c.idxSort(), "(str.len %s)", x.T.S)))
		ex.set(in, Val{T: T(c.intSort(8, false), "(str.at %s %s)", x.T.S, idx.S), Ty: in.Type()})
		return
	}
	mt := in.X.Type().Underlying().(*types.Map)
	k := ex.coerce(ex.val(in.Index), mt.Key()).T
	has := c.define("has", And(Not(Eq(x.T, IntLit("0"))), ex.mapHas(ex.st, mt, x.T, k)))
	v := c.define("mv", Ite(has, ex.mapVal(ex.st, mt, x.T, k), c.zero(mt.Elem())))
	c.assume(Implies(ex.rch, ex.typeFacts(v, mt.Elem())))
	if in.CommaOk {
		ex.vals[in] = Val{Ty: in.Type(), Tuple: []Val{{T: v, Ty: mt.Elem()}, {T: has, Ty: types.Typ[types.Bool]}}}
		return
	}
	ex.vals[in] = Val{T: v, Ty: mt.Elem()}
}

func (ex *Exec) doMapUpdate(in *ssa.MapUpdate) {
	c := ex.c
	mt := in.Map.Type().Underlying().(*types.Map)
	m := ex.val(in.Map).T
	k := ex.coerce(ex.val(in.Key), mt.Key()).T
	v := ex.coerce(ex.val(in.Value), mt.Elem()).T
	ex.mapStore(ex.st, mt, m, k, v)
	_ = c
}

func (ex *Exec) mapStore(st *State, mt *types.Map, m, k, v Term) {
	c := ex.c
	ks := c.sortOf(mt.Key())
	vs := c.sortOf(mt.Elem())
	kh, kv, kl := c.keyMapHas(mt), c.keyMapVal(mt), c.keyMapLen(mt)
	had := c.define("had", ex.mapHas(st, mt, m, k))
	sumBefore, msd := ex.mapSumTerm(st, mt, m)
	var oldW Term
	if msd != nil {
		oldW = ex.weightTerm(msd, mt, ex.mapVal(st, mt, m, k))
	}
	hh := c.heapGet(st, kh)
	c.heapSet(st, kh, Store(hh, m, Store(Select(hh, m, ArraySort(ks, SBool)), k, tTrue)))
	hv := c.heapGet(st, kv)
	c.heapSet(st, kv, Store(hv, m, Store(Select(hv, m, ArraySort(ks, vs)), k, v)))
	if msd != nil {
		// ghost: sum' = sum - (weight of the replaced value, if any) + weight of the new value; sums are non-negative
		sumAfter, _ := ex.mapSumTerm(st, mt, m)
		c.assume(Implies(ex.rch, T(SBool, "(= %s (+ (- %s (ite %s %s 0)) %s))", sumAfter.S, sumBefore.S, had.S, oldW.S, ex.weightTerm(msd, mt, v).S)))
		c.assume(Implies(ex.rch, T(SBool, "(>= %s 0)", sumAfter.S)))
	}
	hl := c.heapGet(st, kl)
	one := c.idxLit(1)
	c.heapSet(st, kl, Store(hl, m, Ite(had, Select(hl, m, c.idxSort()), ex.idxAdd(Select(hl, m, c.idxSort()), one))))
}

func (ex *Exec) mapDelete(st *State, mt *types.Map, m, k Term) {
	c := ex.c
	ks := c.sortOf(mt.Key())
	kh, kl := c.keyMapHas(mt), c.keyMapLen(mt)
	had := c.define("had", And(Not(Eq(m, IntLit("0"))), ex.mapHas(st, mt, m, k)))
	sumBefore, msd := ex.mapSumTerm(st, mt, m)
	var oldW Term
	if msd != nil {
		oldW = ex.weightTerm(msd, mt, ex.mapVal(st, mt, m, k))
	}
	hh := c.heapGet(st, kh)
	c.heapSet(st, kh, Store(hh, m, Store(Select(hh, m, ArraySort(ks, SBool)), k, tFalse)))
	if msd != nil {
		sumAfter, _ := ex.mapSumTerm(st, mt, m)
		c.assume(Implies(ex.rch, T(SBool, "(= %s (- %s (ite %s %s 0)))", sumAfter.S, sumBefore.S, had.S, oldW.S)))
		c.assume(Implies(ex.rch, T(SBool, "(>= %s 0)", sumAfter.S)))
	}
	hl := c.heapGet(st, kl)
	one := c.idxLit(1)
	c.heapSet(st, kl, Store(hl, m, Ite(had, ex.idxSub(Select(hl, m, c.idxSort()), one), Select(hl, m, c.idxSort()))))
}

func (ex *Exec) doNext(in *ssa.Next) {
	c := ex.c
	it := ex.val(in.Iter)
	boolT := types.Typ[types.Bool]
	tup := in.Type().(*types.Tuple)
	ok := c.freshConst("next.ok", SBool)
	if in.IsString {
		k := ex.freshVal("next.k", tup.At(1).Type())
		v := ex.freshVal("next.v", tup.At(2).Type())
		c.assume(Implies(ok, ex.inBounds(k.T, T(c.idxSort(), "(str.len %s)", it.T.S))))
		ex.vals[in] = Val{Ty: in.Type(), Tuple: []Val{{T: ok, Ty: boolT}, k, v}}
		return
	}
	mt := it.Ty.Underlying().(*types.Map)
	k := ex.freshVal("next.k", mt.Key())
	c.assume(Implies(ok, And(Not(Eq(it.T, IntLit("0"))), ex.mapHas(ex.st, mt, it.T, k.T))))
	v := c.define("next.v", ex.mapVal(ex.st, mt, it.T, k.T))
	c.assume(Implies(ex.rch, ex.typeFacts(v, mt.Elem())))
	// ghost set of produced keys: each Next yields a key not produced before; when the iteration ends every key
	// still present has been produced, provided the loop does not insert into a map of this type (Go: entries
	// created during iteration may be skipped; entries removed before being reached are not produced)
	kvis := c.keyMapVisited(mt)
	ks := c.sortOf(mt.Key())
	hv := c.heapGet(ex.st, kvis)
	cur := Select(hv, it.T, ArraySort(ks, SBool))
	c.assume(Implies(And(ex.rch, ok), Not(Select(cur, k.T, SBool))))
	if !ex.loopInsertsInto(in, mt) {
		c.fresh++
		bv := fmt.Sprintf("k!vis%d", c.fresh)
		has := Select(Select(c.heapGet(ex.st, c.keyMapHas(mt)), it.T, ArraySort(ks, SBool)), Term{bv, ks}, SBool)
		vis := Select(cur, Term{bv, ks}, SBool)
		c.assume(Implies(And(ex.rch, Not(ok), Not(Eq(it.T, IntLit("0")))), T(SBool, "(forall ((%s %s)) (! (=> %s %s) :pattern (%s) :pattern (%s)))", bv, ks, has.S, vis.S, has.S, vis.S)))
	} else {
		c.note("%s: the loop over the map inserts into a map of the same type: exhaustion of the iteration is not assumed", ex.fn.Name())
	}
	c.heapSet(ex.st, kvis, Store(hv, it.T, Ite(ok, Store(cur, k.T, tTrue), cur)))
	c.note("%s: map iteration order is arbitrary (each Next yields some present key not produced before)", ex.fn.Name())
	ex.vals[in] = Val{Ty: in.Type(), Tuple: []Val{{T: ok, Ty: boolT}, k, {T: v, Ty: mt.Elem()}}}
}

// loopInsertsInto: the innermost loop containing the Next instruction may insert into a map of type mt
// (a MapUpdate on that type, or a call whose frame includes the map).
func (ex *Exec) loopInsertsInto(in *ssa.Next, mt *types.Map) bool {
	var li *loopInfo
	for _, l := range ex.loops {
		if l.blocks[in.Block()] && (li == nil || len(l.blocks) < len(li.blocks)) {
			li = l
		}
	}
	if li == nil {
		return true
	}
	kh := ex.c.keyMapHas(mt)
	for b := range li.blocks {
		for _, ins := range b.Instrs {
			switch ins := ins.(type) {
			case *ssa.MapUpdate:
				if types.Identical(ins.Map.Type().Underlying(), mt) {
					return true
				}
			case *ssa.Call:
				if bi, ok := ins.Call.Value.(*ssa.Builtin); ok && (bi.Name() == "delete" || bi.Name() == "len" || bi.Name() == "append" || bi.Name() == "copy" || bi.Name() == "cap") {
					continue
				}
				if callee := ins.Call.StaticCallee(); callee != nil && strings.HasPrefix(funcPkgPath(callee), modulePath) && len(callee.Blocks) > 0 {
					// an in-module callee that may modify the map: does it (or what it calls) insert, or only delete?
					if ex.funcInsertsInto(callee, mt, 0) {
						return true
					}
					continue
				}
				m := ex.w.instrMods(ex.c, ins, ex)
				if m.all || m.keys[kh] {
					return true
				}
			case *ssa.Defer, *ssa.Go:
				m := ex.w.instrMods(ex.c, ins, ex)
				if m.all || m.keys[kh] {
					return true
				}
			}
		}
	}
	return false
}

func (ex *Exec) doSelect(in *ssa.Select) {
	c := ex.c
	c.note("%s: select at %s yields an arbitrary ready case", ex.fn.Name(), relPos(ex.pos(in.Pos())))
	c.trust("select statements choose an arbitrary case; blocking not modelled")
	tup := in.Type().(*types.Tuple)
	vs := make([]Val, tup.Len())
	for i := range vs {
		vs[i] = ex.freshVal(fmt.Sprintf("sel.%d", i), tup.At(i).Type())
	}
	n := len(in.States)
	lo := int64(0)
	if !in.Blocking {
		lo = -1
	}
	if c.Mode == ArithInt {
		c.assume(T(SBool, "(and (<= %d %s) (< %s %d))", lo, vs[0].T.S, vs[0].T.S, n))
	}
	ex.vals[in] = Val{Ty: in.Type(), Tuple: vs}
}

// escapeVal converts an SSA value into a first-class value that can be passed around.
// Static locations that have no first-class reference become opaque references whose
// target is havoc'd after the call that receives them.
func (ex *Exec) escapeVal(v ssa.Value) Val {
	x := ex.val(v)
	if x.Loc == nil {
		return x
	}
	l := x.Loc
	if len(l.Path) == 0 {
		switch l.Kind {
		case LStruct, LBox:
			return Val{T: l.Ref, Ty: v.Type()}
		case LElem:
			if l.Idx.S == "" {
				return Val{T: l.Ref, Ty: v.Type()}
			}
		}
	}
	ref := ex.allocRef()
	ex.pendingHavoc = append(ex.pendingHavoc, l)
	ex.c.note("%s: interior pointer %s passed by reference; its target is havoc'd after the call", ex.fn.Name(), v.Name())
	return Val{T: ref, Ty: v.Type()}
}

func (ex *Exec) flushPendingHavoc() {
	for _, l := range ex.pendingHavoc {
		x := ex.c.freshConst("esc", ex.c.sortOf(l.Ty))
		ex.c.assume(ex.typeFacts(x, l.Ty))
		ex.storeLoc(ex.st, l, x)
	}
	ex.pendingHavoc = nil
}

func (ex *Exec) describe() string {
	var b strings.Builder
	ex.fn.WriteTo(&b)
	return b.String()
}

// funcInsertsInto: fn (or an in-module function it calls, to a small depth) may insert into a map of type mt.
func (ex *Exec) funcInsertsInto(fn *ssa.Function, mt *types.Map, depth int) bool {
	if depth > 3 {
		return true
	}
	kh := ex.c.keyMapHas(mt)
	for _, b := range fn.Blocks {
		for _, ins := range b.Instrs {
			switch ins := ins.(type) {
			case *ssa.MapUpdate:
				if types.Identical(ins.Map.Type().Underlying(), mt) {
					return true
				}
			case *ssa.Call:
				if _, ok := ins.Call.Value.(*ssa.Builtin); ok {
					continue
				}
				if callee := ins.Call.StaticCallee(); callee != nil && strings.HasPrefix(funcPkgPath(callee), modulePath) && len(callee.Blocks) > 0 {
					if ex.funcInsertsInto(callee, mt, depth+1) {
						return true
					}
					continue
				}
				m := ex.w.instrMods(ex.c, ins, nil)
				if m.all || m.keys[kh] {
					return true
				}
			case *ssa.Defer, *ssa.Go:
				return true
			}
		}
	}
	return false
}

// mapSumTerm: the ghost weighted sum of map object m (nil when no mapsum is declared for the map type).
func (ex *Exec) mapSumTerm(st *State, mt *types.Map, m Term) (Term, *MapSum) {
	ms, ok := ex.w.MapSums[mt.String()]
	if !ok {
		return Term{}, nil
	}
	c := ex.c
	ks := c.sortOf(mt.Key())
	vs := c.sortOf(mt.Elem())
	fn := "msum." + sanitizeSym(ms.Name)
	c.decl("fn:"+fn, fmt.Sprintf("(declare-fun %s (%s %s) Int)", fn, ArraySort(ks, SBool), ArraySort(ks, vs)))
	has := Select(c.heapGet(st, c.keyMapHas(mt)), m, ArraySort(ks, SBool))
	val := Select(c.heapGet(st, c.keyMapVal(mt)), m, ArraySort(ks, vs))
	return T(SInt, "(%s %s %s)", fn, has.S, val.S), &ms
}

// weightTerm applies the declared weight spec function to a map value.
func (ex *Exec) weightTerm(ms *MapSum, mt *types.Map, v Term) Term {
	sf, ok := ex.w.Specs[ms.Weight]
	if !ok {
		panic(unsupported("mapsum %s: unknown weight spec %s", ms.Name, ms.Weight))
	}
	env := &Env{ex: ex, st: ex.st, old: ex.st, vars: map[string]Val{"x!w": {T: v, Ty: mt.Elem()}}, where: "mapsum " + ms.Name}
	return env.specCall(sf, []ast.Expr{ast.NewIdent("x!w")}).T
}

// instrsHaveEvent reports whether executing the instructions can raise a call event that a clause of the contract under
// verification counts (called(f)): a direct call, go, defer or channel send ("send"), or one inside an in-module callee
// that the executor may inline (no contract of its own, or an inline contract). Used to havoc the ghost counters at loop heads.
func (ex *Exec) instrsHaveEvent(instrs []ssa.Instruction, depth int, seen map[*ssa.Function]bool) bool {
	if ex.ct == nil {
		return false
	}
	match := func(nm string) bool {
		for _, a := range ex.ct.Asserts {
			if calleeMatches(nm, a.Name) {
				return true
			}
		}
		return false
	}
	for _, in := range instrs {
		var cc *ssa.CallCommon
		switch in := in.(type) {
		case *ssa.Call:
			cc = &in.Call
		case *ssa.Go:
			cc = &in.Call
		case *ssa.Defer:
			cc = &in.Call
		case *ssa.Send:
			if match("send") {
				return true
			}
		}
		if cc == nil {
			continue
		}
		var nm string
		switch {
		case cc.IsInvoke():
			nm = cc.Method.FullName()
		case cc.StaticCallee() != nil:
			nm = cc.StaticCallee().String()
		default:
			nm = exprName(cc.Value)
		}
		if match(nm) {
			return true
		}
		if callee := cc.StaticCallee(); callee != nil && !cc.IsInvoke() && depth < 4 && len(callee.Blocks) > 0 && !seen[callee] {
			if ct, _ := ex.w.contractFor(callee); ct == nil || ct.Inline {
				seen[callee] = true
				for _, b := range callee.Blocks {
					if ex.instrsHaveEvent(b.Instrs, depth+1, seen) {
						return true
					}
				}
			}
		}
	}
	return false
}
