#!/bin/sh
# Builds /verif/bin/govc offline from vendored sources.
set -e
cd /verif/govc
export PATH=/opt/veriftools/go1.26.8/bin:$PATH GOTOOLCHAIN=local GOFLAGS=-mod=vendor GOPROXY=off GOSUMDB=off CGO_ENABLED=0
mkdir -p /verif/bin
go build -o /verif/bin/govc .
