package core

import (
	"testing"

	"github.com/bluenviron/mediamtx/internal/conf"
	"github.com/bluenviron/mediamtx/internal/logger"
	"github.com/bluenviron/mediamtx/internal/servers/rtsp"
)

type nilLogger struct{}

func (nilLogger) Log(logger.Level, string, ...any) {}

// Hot reload: the RTSPS server is built from srtpAddress, srtcpAddress, multicastIPRange,
// multicastSRTPPort and multicastSRTCPPort; changing any of them must recreate it.
func TestDemoReloadRTSPSServerOnSRTPAddressChange(t *testing.T) {
	for _, field := range []string{"SRTPAddress", "SRTCPAddress", "MulticastIPRange", "MulticastSRTPPort", "MulticastSRTCPPort"} {
		t.Run(field, func(t *testing.T) {
			cur := &conf.Conf{}
			cur.SRTPAddress = ":8322"
			cur.SRTCPAddress = ":8323"
			cur.MulticastIPRange = "224.1.0.0/16"
			cur.MulticastSRTPPort = 8004
			cur.MulticastSRTCPPort = 8005
			nw := *cur
			switch field {
			case "SRTPAddress":
				nw.SRTPAddress = ":9322"
			case "SRTCPAddress":
				nw.SRTCPAddress = ":9323"
			case "MulticastIPRange":
				nw.MulticastIPRange = "224.2.0.0/16"
			case "MulticastSRTPPort":
				nw.MulticastSRTPPort = 9004
			case "MulticastSRTCPPort":
				nw.MulticastSRTCPPort = 9005
			}

			p := &Core{}
			p.conf.Store(cur)
			srv := &rtsp.Server{Parent: nilLogger{}, Encryption: true}
			p.rtspsServer = srv

			closeAttempted := false
			func() {
				// Close() on a server that was never initialised panics; the attempt itself is what matters here
				defer func() {
					if r := recover(); r != nil {
						closeAttempted = true
					}
				}()
				p.closeResources(&nw)
			}()

			if !closeAttempted && p.rtspsServer != nil {
				t.Fatalf("%s changed but the RTSPS server keeps running with the old value", field)
			}
		})
	}
}
