//go:build !windows

package externalcmd

// Demonstration for /verif finding C21-exit-status (copy into internal/externalcmd/ to run): a hook command
// that exits with a non-zero status must be reported as failed with that status.

import (
	"strings"
	"testing"
	"time"
)

func TestFindingC21ExitStatusReported(t *testing.T) {
	p := &Pool{}
	p.Initialize()

	done := make(chan error, 1)
	cmd := &Cmd{
		Pool:   p,
		Cmdstr: "sh -c 'exit 3'",
		OnExit: func(err error) { done <- err },
	}
	cmd.Start()

	closed := make(chan struct{})
	go func() { p.Close(); close(closed) }()
	select {
	case <-closed:
	case <-time.After(10 * time.Second):
		t.Fatal("timeout")
	}

	select {
	case err := <-done:
		if err == nil || !strings.Contains(err.Error(), "code 3") {
			t.Fatalf("hook exited with status 3 but was reported as: %v", err)
		}
	default:
		t.Fatal("hook exited with status 3 but no failure was reported")
	}
}
