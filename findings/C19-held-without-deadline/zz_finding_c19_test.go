package core

import (
	"bufio"
	"fmt"
	"net"
	"testing"
	"time"

	"github.com/bluenviron/gortsplib/v5"
	"github.com/bluenviron/gortsplib/v5/pkg/base"
	"github.com/bluenviron/gortsplib/v5/pkg/description"
	"github.com/stretchr/testify/require"

	"github.com/bluenviron/mediamtx/internal/test"
)

// TestFindingC19HeldWithoutDeadline demonstrates, on the unmodified server, a describe request that is put on hold
// with no start timeout armed and is therefore never answered (property C19: "... receives exactly one response: the
// stream once it becomes ready, or an error when the start timeout expires or the path closes").
//
// History: runOnDemand path; reader A demands it, a publisher arrives, A reads; the publisher disconnects while A is
// attached (A is kicked, the on-demand state stays 'ready', later 'closing'); request B arrives while there is no
// stream: doDescribe holds it because the on-demand state is not 'initial', but starts nothing and arms no ready timer.
// After the close delay the command is stopped (state 'initial') and B is still held. B gets no answer although both
// runOnDemandStartTimeout and runOnDemandCloseAfter have long expired.
func TestFindingC19HeldWithoutDeadline(t *testing.T) {
	p, ok := newInstance(t, "rtmp: no\n"+
		"hls: no\n"+
		"webrtc: no\n"+
		"srt: no\n"+
		"rtspAddress: :18554\n"+
		"rtspTransports: [tcp]\n"+
		"paths:\n"+
		"  ondemand:\n"+
		"    runOnDemand: sleep 3600\n"+
		"    runOnDemandStartTimeout: 2s\n"+
		"    runOnDemandCloseAfter: 2s\n")
	require.Equal(t, true, ok)
	defer p.Close()

	u, err := base.ParseURL("rtsp://127.0.0.1:18554/ondemand")
	require.NoError(t, err)

	readerA := gortsplib.Client{Scheme: u.Scheme, Host: u.Host}
	err = readerA.Start()
	require.NoError(t, err)
	defer readerA.Close()

	readerAPlaying := make(chan error, 1)
	go func() {
		desc, _, err2 := readerA.Describe(u)
		if err2 != nil {
			readerAPlaying <- err2
			return
		}
		err2 = readerA.SetupAll(desc.BaseURL, desc.Medias)
		if err2 != nil {
			readerAPlaying <- err2
			return
		}
		_, err2 = readerA.Play(nil)
		readerAPlaying <- err2
	}()

	time.Sleep(500 * time.Millisecond)

	media0 := test.UniqueMediaH264()
	source := gortsplib.Client{}
	err = source.StartRecording("rtsp://127.0.0.1:18554/ondemand",
		&description.Session{Medias: []*description.Media{media0}})
	require.NoError(t, err)
	defer source.Close()

	select {
	case err = <-readerAPlaying:
		require.NoError(t, err)
	case <-time.After(10 * time.Second):
		t.Fatal("reader A did not start reading")
	}

	// the publisher disconnects while reader A is attached
	source.Close()
	kicked := make(chan struct{})
	go func() {
		readerA.Wait() //nolint:errcheck
		close(kicked)
	}()
	select {
	case <-kicked:
	case <-time.After(10 * time.Second):
		t.Fatal("reader A was not kicked")
	}

	// request B: a describe while there is no stream
	conn, err := net.Dial("tcp", "127.0.0.1:18554")
	require.NoError(t, err)
	defer conn.Close()
	byts, _ := base.Request{
		Method: base.Describe,
		URL:    u,
		Header: base.Header{"CSeq": base.HeaderValue{"1"}},
	}.Marshal()
	_, err = conn.Write(byts)
	require.NoError(t, err)

	// start timeout (2s) and close delay (2s) both expire well within 12 seconds: B must have an answer by then
	conn.SetReadDeadline(time.Now().Add(12 * time.Second)) //nolint:errcheck
	var res base.Response
	err = res.Unmarshal(bufio.NewReader(conn))
	require.NoError(t, err, fmt.Sprintf("request B received no response within 12s (start timeout 2s, close delay 2s): %v", err))
}
