package stream

import (
	"bytes"
	"testing"

	"github.com/bluenviron/gortsplib/v5/pkg/format"
	"github.com/bluenviron/mediamtx/internal/unit"
)

// An access unit carries two VPS: first a new one (B), then one equal to the VPS of the
// description (A). The most recent in-band VPS is A, so the description must keep/report A.
func TestDemoH265MostRecentVPS(t *testing.T) {
	a := []byte{0x40, 0x01, 0xAA} // VPS (type 32) "A"
	b := []byte{0x40, 0x01, 0xBB} // VPS "B"
	f := &format.H265{PayloadTyp: 96, VPS: a, SPS: []byte{0x42, 0x01, 1}, PPS: []byte{0x44, 0x01, 2}}
	au := unit.PayloadH265{b, a, {0x26, 0x01, 0x00}} // VPS B, VPS A, IDR
	formatUpdaterH265(f, au, func(fn func()) { fn() })
	if !bytes.Equal(f.VPS, a) {
		t.Fatalf("description reports VPS %x, most recent in-band VPS is %x", f.VPS, a)
	}
}

func TestDemoH264MostRecentSPS(t *testing.T) {
	a := []byte{0x67, 0xAA}
	b := []byte{0x67, 0xBB}
	f := &format.H264{PayloadTyp: 96, SPS: a, PPS: []byte{0x68, 1}, PacketizationMode: 1}
	au := unit.PayloadH264{b, a, {0x65, 0x00}}
	formatUpdaterH264(f, au, func(fn func()) { fn() })
	if !bytes.Equal(f.SPS, a) {
		t.Fatalf("description reports SPS %x, most recent in-band SPS is %x", f.SPS, a)
	}
}
