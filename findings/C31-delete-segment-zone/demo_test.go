package api //nolint:revive

// Demonstration for /verif finding C31-delete-segment-zone (copy into internal/api/ to run; the package needs the
// generated file internal/servers/hls/hls.min.js, a placeholder is enough): deleting a segment must work for the
// same instant written with any UTC offset. Segment file names carry local time; the handler encoded the name in
// the offset the request happened to be written with.

import (
	"net/http"
	"net/url"
	"os"
	"path/filepath"
	"testing"
	"time"

	"github.com/stretchr/testify/require"

	"github.com/bluenviron/mediamtx/internal/conf"
	"github.com/bluenviron/mediamtx/internal/test"
)

func TestFindingC31DeleteSegmentAnyOffset(t *testing.T) {
	// make the server's local zone differ from UTC for the duration of the test
	prev := time.Local
	time.Local = time.FixedZone("TEST", 2*3600)
	defer func() { time.Local = prev }()

	for _, ca := range []struct {
		name string
		loc  *time.Location
	}{
		{"written in the local offset", time.Local},
		{"written in UTC", time.UTC},
		{"written in another offset", time.FixedZone("O", -5*3600)},
	} {
		t.Run(ca.name, func(t *testing.T) {
			dir := t.TempDir()

			cnf := tempConf(t, "pathDefaults:\n"+
				"  recordPath: "+filepath.Join(dir, "%path/%Y-%m-%d_%H-%M-%S-%f")+"\n"+
				"paths:\n"+
				"  all_others:\n")

			api := API{
				Address:      "localhost:9997",
				ReadTimeout:  conf.Duration(10 * time.Second),
				WriteTimeout: conf.Duration(10 * time.Second),
				AuthManager:  test.NilAuthManager,
				Parent:       &testParent{conf: cnf},
			}
			err := api.Initialize()
			require.NoError(t, err)
			defer api.Close()

			err = os.MkdirAll(filepath.Join(dir, "cam1"), 0o755)
			require.NoError(t, err)

			// the recorder names segments after local time
			start := time.Date(2008, 11, 7, 11, 22, 0, 900000000, time.Local)
			segmentPath := filepath.Join(dir, "cam1", "2008-11-07_11-22-00-900000.mp4")
			require.NoError(t, os.WriteFile(segmentPath, []byte(""), 0o644))

			u, err := url.Parse("http://localhost:9997/v3/recordings/deletesegment")
			require.NoError(t, err)
			v := url.Values{}
			v.Set("path", "cam1")
			v.Set("start", start.In(ca.loc).Format(time.RFC3339Nano)) // the same instant
			u.RawQuery = v.Encode()

			req, err := http.NewRequest(http.MethodDelete, u.String(), nil)
			require.NoError(t, err)
			tr := &http.Transport{}
			defer tr.CloseIdleConnections()
			resp, err := (&http.Client{Transport: tr}).Do(req)
			require.NoError(t, err)
			defer resp.Body.Close()

			require.Equal(t, http.StatusOK, resp.StatusCode, "segment starting at that instant was not found")
			_, err = os.Stat(segmentPath)
			require.True(t, os.IsNotExist(err), "segment starting at that instant was not removed")
		})
	}
}
