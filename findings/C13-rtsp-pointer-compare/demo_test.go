package core

import (
	"testing"

	"github.com/bluenviron/mediamtx/internal/conf"
	"github.com/bluenviron/mediamtx/internal/servers/rtsp"
)

// Hot reload: a component none of whose parameters changed keeps running. With rtspUDPReadBufferSize set,
// a reloaded configuration carries an equal value behind a different pointer (every file load and every
// API edit works on a deep copy), and the RTSP servers were restarted on every reload.
func TestDemoReloadKeepsRTSPServerWhenUDPReadBufferSizeUnchanged(t *testing.T) {
	v := uint(65536)
	cur := &conf.Conf{}
	cur.RTSPUDPReadBufferSize = &v
	nw := cur.Clone() // what an API edit does before applying a change elsewhere
	if nw.RTSPUDPReadBufferSize == cur.RTSPUDPReadBufferSize || *nw.RTSPUDPReadBufferSize != v {
		t.Fatal("test setup: expected an equal value behind a different pointer")
	}

	p := &Core{}
	p.conf.Store(cur)
	p.rtspServer = &rtsp.Server{Parent: nilLogger{}}

	closeAttempted := false
	func() {
		defer func() {
			if r := recover(); r != nil {
				closeAttempted = true // Close() on a never-initialised server panics: the attempt is what matters
			}
		}()
		p.closeResources(nw)
	}()

	if closeAttempted || p.rtspServer == nil {
		t.Fatal("nothing changed, but the RTSP server was closed (its clients are disconnected on every reload)")
	}
}
