package playback

// Demonstration for /verif finding C28-zero-timescale (copy into internal/playback/ to run): a recording file whose
// movie header (mvhd) or media header (mdhd) carries time scale 0 - a corrupted or foreign file - must make the
// playback readers fail with an error, not panic with an integer division by zero (a panic in a playback handler
// terminates the server process through handlerExitOnPanic).

import (
	"bytes"
	"testing"

	"github.com/bluenviron/mediacommon/v2/pkg/formats/fmp4"
	"github.com/bluenviron/mediacommon/v2/pkg/formats/fmp4/seekablebuffer"
	"github.com/bluenviron/mediacommon/v2/pkg/codecs/mpeg4audio"
	"github.com/stretchr/testify/require"
)

func findingC28Segment(t *testing.T) []byte {
	var buf seekablebuffer.Buffer
	init := fmp4.Init{Tracks: []*fmp4.InitTrack{{
		ID:        1,
		TimeScale: 90000,
		Codec: &fmp4.CodecMPEG4Audio{Config: mpeg4audio.AudioSpecificConfig{
			Type: mpeg4audio.ObjectTypeAACLC, SampleRate: 48000, ChannelCount: 2,
		}},
	}}}
	require.NoError(t, init.Marshal(&buf))
	parts := fmp4.Parts{{SequenceNumber: 1, Tracks: []*fmp4.PartTrack{{
		ID: 1, BaseTime: 0, Samples: []*fmp4.Sample{{Duration: 90000, Payload: []byte{1, 2, 3, 4}}},
	}}}}
	require.NoError(t, parts.Marshal(&buf))
	return buf.Bytes()
}

func zeroTimescaleAfter(t *testing.T, file []byte, box string) []byte {
	out := append([]byte(nil), file...)
	i := bytes.Index(out, []byte(box))
	require.True(t, i >= 0, "box %s not found", box)
	// full box: 4 version/flags, 4 creation time, 4 modification time, 4 time scale
	copy(out[i+4+12:i+4+16], []byte{0, 0, 0, 0})
	return out
}

func TestFindingC28ZeroTimescaleDoesNotPanic(t *testing.T) {
	file := findingC28Segment(t)

	t.Run("sanity", func(t *testing.T) {
		init, _, err := segmentFMP4ReadHeader(bytes.NewReader(file))
		require.NoError(t, err)
		_, err = segmentFMP4ReadDurationFromParts(bytes.NewReader(file), init)
		require.NoError(t, err)
	})

	t.Run("mvhd time scale 0", func(t *testing.T) {
		bad := zeroTimescaleAfter(t, file, "mvhd")
		require.NotPanics(t, func() {
			_, _, _ = segmentFMP4ReadHeader(bytes.NewReader(bad))
		})
	})

	t.Run("mdhd time scale 0", func(t *testing.T) {
		bad := zeroTimescaleAfter(t, file, "mdhd")
		require.NotPanics(t, func() {
			init, _, err := segmentFMP4ReadHeader(bytes.NewReader(bad))
			if err != nil {
				return
			}
			_, _ = segmentFMP4ReadDurationFromParts(bytes.NewReader(bad), init)
		})
	})
}
