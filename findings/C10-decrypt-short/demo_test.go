package decrypt

// Demonstration for /verif finding C10-decrypt-short (copy into internal/conf/decrypt/ to run): with MTX_CONFKEY set,
// configuration file content that base64-decodes to fewer than 24 bytes must be rejected with an error; it made
// Decrypt slice enc[:24] beyond the capacity of the decoded buffer and panic (the server dies while loading or
// hot-reloading the file).

import "testing"

func TestFindingC10DecryptShortInput(t *testing.T) {
	for _, content := range []string{"", "aGVsbG8=", "AAAA", "aGVsbG8gd29ybGQgaGVsbG8gd29ybGQ="} {
		func() {
			defer func() {
				if r := recover(); r != nil {
					t.Errorf("content %q: Decrypt panicked: %v", content, r)
				}
			}()
			if _, err := Decrypt("mykey", []byte(content)); err == nil {
				t.Errorf("content %q: accepted", content)
			}
		}()
	}
}
