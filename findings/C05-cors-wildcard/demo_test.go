package httpp

// Demonstration for /verif finding C05-cors-wildcard (copy into internal/protocols/httpp/ to run):
// the wildcard branch of isOriginAllowed did not compare schemes and did not quote the literal characters
// of the allowed host, so '.' matched any character.

import "testing"

func TestFindingC05WildcardSchemeAndLiteralDot(t *testing.T) {
	allowed := []string{"https://*.example.org"}
	for _, origin := range []string{
		"http://a.example.org:443", // other scheme, same effective port text
		"https://exampleXorg",      // '.' of the allowed host must match literally
		"https://a.exampleXorg",
	} {
		if got, ok := isOriginAllowed(origin, allowed); ok {
			t.Errorf("origin %q echoed as %q although only %v is allowed", origin, got, allowed)
		}
	}
	for _, origin := range []string{"https://a.example.org", "https://example.org", "https://a.b.example.org:443"} {
		if got, ok := isOriginAllowed(origin, allowed); !ok || got != origin {
			t.Errorf("origin %q must be allowed by %v", origin, allowed)
		}
	}
}
